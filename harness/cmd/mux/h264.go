package main

// H264 concretisation. Two layouts, selected per history by history.H264Reorder:
//
//   legacy (flag off; every history recorded before the flag existed): the baseline SPS below for every
//     parameter id (pic_order_cnt_type 2: the muxer's DTS extractor returns dts = pts without reading the
//     slices), slice NAL units = header byte + payload filler.
//   reorder (flag on): parameter ids with q = p mod 4 >= 2 get an SPS with pic_order_cnt_type 0, built
//     bit by bit below (ITU-T H.264 7.3.2.1.1), under which mediacommon's h264.DTSExtractor reads
//     pic_order_cnt_lsb from the slice headers and returns decode times that lag the presentation times
//     of reordered (B) pictures; every slice NAL unit carries a real slice_header() prefix (7.3.3) of
//     h264SliceHdrLen bytes in front of the payload filler. q < 2 keeps the baseline SPS.
//
// The extractor is a trusted component (mediacommon): the generator runs its own instance over the
// concrete access units and takes the abstract dts of a unit to be what that instance returns; units it
// rejects are never generated (gen.go). annotate() re-checks this for every history, replays included.

import (
	"bytes"
	"fmt"

	"github.com/bluenviron/mediacommon/v2/pkg/codecs/h264"
)

// baseline profile, pic_order_cnt_type 2 (dts = pts); byte 3 is level_idc
var baseSPS = []byte{
	0x67, 0x42, 0xc0, 0x28, 0xd9, 0x00, 0x78, 0x02,
	0x27, 0xe5, 0x84, 0x00, 0x00, 0x03, 0x00, 0x04,
	0x00, 0x00, 0x03, 0x00, 0xf0, 0x3c, 0x60, 0xc9,
	0x20,
}

var h264Levels = []byte{0x28, 0x29, 0x2a}

type h264Var struct {
	profile, constraint byte
	mbW, mbH            int // picture size in macroblocks
	cropBottom          int // frame_crop_bottom_offset (chroma units of 2 luma rows)
	refFrames           int
	timing              bool
	ticks, tscale       uint32
}

// q = 2: High profile, 1280x720 with VUI timing (25 fps) and a bitstream restriction announcing two
// reordered frames; q = 3: Main profile, 640x360 (cropped from 368), no VUI
var h264ReorderVars = map[int]h264Var{
	2: {profile: 100, constraint: 0x00, mbW: 80, mbH: 45, refFrames: 4, timing: true, ticks: 1, tscale: 50},
	3: {profile: 77, constraint: 0x40, mbW: 40, mbH: 23, cropBottom: 4, refFrames: 3},
}

const (
	h264Log2MaxFrameNum = 4 // log2_max_frame_num_minus4 = 0
	h264Log2MaxPocLsb   = 6 // log2_max_pic_order_cnt_lsb_minus4 = 2: pic_order_cnt_lsb wraps every 32 frames
	h264SliceHdrLen     = 4
)

// h264ReorderID: does parameter id p select a pic_order_cnt_type 0 SPS in a history with the flag on?
func h264ReorderID(h *history, p int64) bool { return h.H264Reorder && pq(p) >= 2 }

func h264ReorderSPS(p int64) []byte {
	v := h264ReorderVars[pq(p)]
	var w bitw
	w.put(uint64(v.profile), 8)         // profile_idc
	w.put(uint64(v.constraint), 8)      // constraint_set flags + reserved_zero_2bits
	w.put(uint64(h264Levels[pg(p)]), 8) // level_idc
	w.ue(0)                             // seq_parameter_set_id
	if v.profile == 100 {
		w.ue(1)     // chroma_format_idc 4:2:0
		w.ue(0)     // bit_depth_luma_minus8
		w.ue(0)     // bit_depth_chroma_minus8
		w.put(0, 1) // qpprime_y_zero_transform_bypass_flag
		w.put(0, 1) // seq_scaling_matrix_present_flag
	}
	w.ue(h264Log2MaxFrameNum - 4) // log2_max_frame_num_minus4
	w.ue(0)                       // pic_order_cnt_type
	w.ue(h264Log2MaxPocLsb - 4)   // log2_max_pic_order_cnt_lsb_minus4
	w.ue(uint64(v.refFrames))     // max_num_ref_frames
	w.put(0, 1)                   // gaps_in_frame_num_value_allowed_flag
	w.ue(uint64(v.mbW - 1))       // pic_width_in_mbs_minus1
	w.ue(uint64(v.mbH - 1))       // pic_height_in_map_units_minus1
	w.put(1, 1)                   // frame_mbs_only_flag
	w.put(1, 1)                   // direct_8x8_inference_flag
	w.flag(v.cropBottom != 0)     // frame_cropping_flag
	if v.cropBottom != 0 {
		w.ue(0)
		w.ue(0)
		w.ue(0)
		w.ue(uint64(v.cropBottom))
	}
	w.flag(v.timing) // vui_parameters_present_flag
	if v.timing {
		w.put(0, 1) // aspect_ratio_info_present_flag
		w.put(0, 1) // overscan_info_present_flag
		w.put(0, 1) // video_signal_type_present_flag
		w.put(0, 1) // chroma_loc_info_present_flag
		w.put(1, 1) // timing_info_present_flag
		w.put(uint64(v.ticks), 32)
		w.put(uint64(v.tscale), 32)
		w.put(1, 1)               // fixed_frame_rate_flag
		w.put(0, 1)               // nal_hrd_parameters_present_flag
		w.put(0, 1)               // vcl_hrd_parameters_present_flag
		w.put(0, 1)               // pic_struct_present_flag
		w.put(1, 1)               // bitstream_restriction_flag
		w.put(1, 1)               // motion_vectors_over_pic_boundaries_flag
		w.ue(2)                   // max_bytes_per_pic_denom
		w.ue(1)                   // max_bits_per_mb_denom
		w.ue(11)                  // log2_max_mv_length_horizontal
		w.ue(11)                  // log2_max_mv_length_vertical
		w.ue(2)                   // max_num_reorder_frames
		w.ue(uint64(v.refFrames)) // max_dec_frame_buffering
	}
	w.trailing()
	return append([]byte{0x67}, emulationPrevent(w.b)...)
}

func spsOf(h *history, p int64) []byte {
	if h264ReorderID(h, p) {
		return h264ReorderSPS(p)
	}
	s := append([]byte{}, baseSPS...)
	s[3] = h264Levels[(p/4)%3]
	return s
}
func ppsOf(p int64) []byte { return []byte{0x68, 0x10 + byte(p)} }

// slice_header() up to pic_order_cnt_lsb, for the SPS variants above (frame_mbs_only, 4-bit frame_num,
// 6-bit pic_order_cnt_lsb, PPS 0), padded with one bits to h264SliceHdrLen bytes. The longest run of zero
// bits is 10 (frame_num 0 followed by pic_order_cnt_lsb 0), so no two zero bytes: no start-code emulation.
func h264SliceHeader(idr, bslice bool, id int64, poc int) []byte {
	var w bitw
	w.ue(0)         // first_mb_in_slice
	st := uint64(0) // P
	if idr {
		st = 2 // I
	} else if bslice {
		st = 1 // B
	}
	if id%2 == 0 {
		st += 5 // "all slices of the picture have this type"
	}
	w.ue(st)
	w.ue(0) // pic_parameter_set_id
	if idr {
		w.put(0, h264Log2MaxFrameNum) // frame_num
		w.ue(uint64(id % 3))          // idr_pic_id
	} else {
		w.put(uint64(id%16), h264Log2MaxFrameNum)
	}
	w.put(uint64(poc)&(1<<h264Log2MaxPocLsb-1), h264Log2MaxPocLsb) // pic_order_cnt_lsb
	for w.n < 8*h264SliceHdrLen {
		w.put(1, 1)
	}
	return w.b
}

// one slice NAL unit of the access unit a (unit u)
func h264SliceNALU(h *history, a *auA, u unitA, idr bool) []byte {
	hdr := byte(0x41) // nal_ref_idc 2, non-IDR slice
	if idr {
		hdr = 0x65
	}
	var out []byte
	if h.H264Reorder {
		if !idr && a.BSlice && u.ID%2 == 0 {
			hdr = 0x01 // a non-reference B picture
		}
		out = append([]byte{hdr}, h264SliceHeader(idr, a.BSlice, u.ID, a.Poc)...)
	} else {
		out = []byte{hdr}
	}
	return append(out, fill(u.ID, u.Len)...)
}

// offset of the payload id inside a slice NAL unit
func h264IDOffset(reorder bool) int {
	if reorder {
		return 1 + h264SliceHdrLen
	}
	return 1
}

func selfCheckH264() {
	must := func(ok bool, f string, a ...interface{}) {
		if !ok {
			panic("concretisation self-check (h264): " + fmt.Sprintf(f, a...))
		}
	}
	hr := &history{H264Reorder: true}
	hl := &history{}
	seen := map[string]int64{}
	for p := int64(0); p < 12; p++ {
		must(bytes.Equal(spsOf(hl, p)[:3], baseSPS[:3]), "legacy SPS %d", p)
		var sps h264.SPS
		must(sps.Unmarshal(spsOf(hr, p)) == nil, "SPS %d does not parse", p)
		must(sps.LevelIdc == h264Levels[pg(p)] && spsOf(hr, p)[3] == h264Levels[pg(p)], "SPS %d level", p)
		if pq(p) < 2 {
			must(sps.PicOrderCntType == 2 && bytes.Equal(spsOf(hr, p), spsOf(hl, p)), "SPS %d: baseline expected", p)
		} else {
			v := h264ReorderVars[pq(p)]
			must(sps.PicOrderCntType == 0 && sps.FrameMbsOnlyFlag && sps.ProfileIdc == v.profile &&
				sps.Log2MaxFrameNumMinus4 == h264Log2MaxFrameNum-4 && sps.Log2MaxPicOrderCntLsbMinus4 == h264Log2MaxPocLsb-4 &&
				sps.Width() == 16*v.mbW && sps.Height() == 16*v.mbH-2*v.cropBottom, "SPS %d: %+v", p, sps)
			if v.timing {
				must(sps.FPS() == float64(v.tscale)/float64(2*v.ticks), "SPS %d fps %v", p, sps.FPS())
			} else {
				must(sps.FPS() == 0, "SPS %d fps %v", p, sps.FPS())
			}
			must(!bytes.Contains(spsOf(hr, p), []byte{0, 0, 0}) && !bytes.Contains(spsOf(hr, p), []byte{0, 0, 1}), "SPS %d: start code emulation", p)
		}
		k := string(spsOf(hr, p)) + "|" + string(ppsOf(p))
		if o, dup := seen[k]; dup {
			must(false, "ids %d and %d give identical H264 parameters", o, p)
		}
		seen[k] = p
	}
	// slice headers: fixed length, no two zero bytes, and the extractor reads back the POC that was written
	for id := int64(1); id < 40; id++ {
		for poc := 0; poc < 64; poc++ {
			for _, mode := range [][2]bool{{true, false}, {false, false}, {false, true}} {
				hd := h264SliceHeader(mode[0], mode[1], id, poc)
				must(len(hd) == h264SliceHdrLen && !bytes.Contains(hd, []byte{0, 0}) && hd[len(hd)-1] != 0, "slice header % x", hd)
			}
		}
	}
	// DTS extractor on an I P B B P B B pattern: decode times lag the presentation times of the P pictures
	for _, p := range []int64{2, 3, 7} {
		ex := &h264.DTSExtractor{}
		ex.Initialize()
		type fr struct {
			idr, b bool
			disp   int
		}
		seq := []fr{{true, false, 0}, {false, false, 3}, {false, true, 1}, {false, true, 2}, {false, false, 6}, {false, true, 4}, {false, true, 5}}
		lag := false
		prev := int64(-1 << 40)
		for i, f := range seq {
			a := &auA{RA: f.idr, NonIDR: !f.idr, BSlice: f.b, Poc: 2 * f.disp}
			u := unitA{ID: int64(i + 1), Len: 20}
			au := [][]byte{h264SliceNALU(hr, a, u, f.idr)}
			if f.idr {
				au = [][]byte{spsOf(hr, p), ppsOf(p), au[0]}
			}
			pts := int64(90000 + 3000*f.disp)
			d, err := ex.Extract(au, pts)
			must(err == nil && d >= prev && (d <= pts || f.b), "h264 DTS extractor, id %d frame %d: dts %d pts %d err %v", p, i, d, pts, err)
			if d < pts {
				lag = true
			}
			prev = d
			var avcc []byte
			for _, n := range au {
				avcc = append(avcc, byte(len(n)>>24), byte(len(n)>>16), byte(len(n)>>8), byte(len(n)))
				avcc = append(avcc, n...)
			}
			must(videoID(avcc, true) == u.ID, "h264 sample id")
		}
		must(lag, "h264 DTS extractor never returned dts < pts under SPS id %d", p)
	}
}
