package main

import (
	"bytes"
	"runtime"
	"strconv"
	"sync"

	gohlslib "github.com/bluenviron/gohlslib/v2"
)

// The library's verification hook is one process-wide function, and histories run on parallel workers: each
// worker registers its own function under its goroutine id and one dispatcher, installed once, forwards a hook
// point to the function of the goroutine that reached it (the hook points used here are reached inside Write,
// on the worker's goroutine). A point reached on any other goroutine is ignored.
var hookReg sync.Map // goroutine id -> func(string)

func goid() int64 {
	var buf [64]byte
	b := buf[:runtime.Stack(buf[:], false)]
	b = bytes.TrimPrefix(b, []byte("goroutine "))
	if i := bytes.IndexByte(b, ' '); i > 0 {
		b = b[:i]
	}
	n, _ := strconv.ParseInt(string(b), 10, 64)
	return n
}

func installHookDispatcher() {
	gohlslib.VerifSetHook(func(point string) {
		if f, ok := hookReg.Load(goid()); ok {
			f.(func(string))(point)
		}
	})
}

// setLocalHook registers f for the calling goroutine and returns the function that removes it.
func setLocalHook(f func(string)) func() {
	id := goid()
	hookReg.Store(id, f)
	return func() { hookReg.Delete(id) }
}
