package main

// Generator: a valid stream (fMP4 or MPEG-TS, media or multivariant primary playlist, audio
// renditions) plus structure-aware deviations ("faults"). All randomness from internal/rng.

import (
	"encoding/json"
	"fmt"
	"strings"

	"verifharness/internal/rng"
)

var fmp4Video = []string{"h264", "h265", "av1", "vp9"}
var fmp4Audio = []string{"mpeg4audio", "opus"}
var fmp4Unsupported = []string{"mpeg4video", "mpeg1video", "mjpeg", "mpeg1audio", "ac3", "lpcm"}
var tsUnsupported = []string{"h265", "mpeg4video", "mpeg1video", "mpeg2video", "opus", "mpeg1audio", "ac3", "dirac", "private", "eac3"}

func timescaleOf(codec string) uint32 {
	switch codec {
	case "mpeg4audio":
		return 44100
	case "opus", "ac3", "lpcm", "mpeg1audio":
		return 48000
	}
	return 90000
}

func isVideoCodec(c string) bool {
	switch c {
	case "h264", "h265", "av1", "vp9", "mpeg4video", "mpeg1video", "mpeg2video", "mjpeg", "dirac":
		return true
	}
	return false
}

func cloneRecipe(r *Recipe) *Recipe {
	b, _ := json.Marshal(r)
	var c Recipe
	if err := json.Unmarshal(b, &c); err != nil {
		panic(err)
	}
	return &c
}

// validFMP4 builds a valid fMP4 stream: nTracks tracks, IDs 1.., every part carries every track.
func validFMP4(r *rng.R, nTracks int, audioOnly bool, start uint64) StreamR {
	s := StreamR{Container: "fmp4", DateTime: r.Bool(1, 2)}
	for i := 0; i < nTracks; i++ {
		var c string
		if i == 0 && !audioOnly {
			c = fmp4Video[r.Intn(len(fmp4Video))]
		} else {
			c = fmp4Audio[r.Intn(len(fmp4Audio))]
		}
		s.Tracks = append(s.Tracks, TrackR{ID: i + 1, TimeScale: timescaleOf(c), Codec: c})
	}
	nseg := 1 + r.Intn(3)
	base := make([]uint64, nTracks)
	for i := range base {
		// the same instant in each track's time scale
		base[i] = start * uint64(s.Tracks[i].TimeScale) / 90000
	}
	for g := 0; g < nseg; g++ {
		var seg SegR
		nparts := 1 + r.Intn(2)
		for p := 0; p < nparts; p++ {
			var part PartR
			for i, t := range s.Tracks {
				pt := PartTrackR{ID: t.ID, BaseTime: base[i]}
				ns := 1 + r.Intn(3)
				for k := 0; k < ns; k++ {
					d := t.TimeScale / 100 // 10 ms
					sm := SampleR{Dur: d}
					if isVideoCodec(t.Codec) && r.Bool(1, 4) {
						sm.PTSOff = int32(d)
					}
					pt.Samples = append(pt.Samples, sm)
					base[i] += uint64(d)
				}
				part.Tracks = append(part.Tracks, pt)
			}
			seg.Parts = append(seg.Parts, part)
		}
		s.Segments = append(s.Segments, seg)
	}
	return s
}

// validTS builds a valid MPEG-TS stream.
func validTS(r *rng.R, audioOnly bool, start uint64) StreamR {
	s := StreamR{Container: "mpegts", DateTime: r.Bool(1, 2)}
	if !audioOnly {
		s.Tracks = append(s.Tracks, TrackR{Codec: "h264"})
	}
	if audioOnly || r.Bool(2, 3) {
		s.Tracks = append(s.Tracks, TrackR{Codec: "mpeg4audio"})
	}
	nseg := 1 + r.Intn(3)
	pts := int64(start)
	for g := 0; g < nseg; g++ {
		var seg SegR
		n := 2 + r.Intn(4)
		for k := 0; k < n; k++ {
			for i := range s.Tracks {
				seg.Events = append(seg.Events, TSEventR{Track: i, PTS: pts & 0x1FFFFFFFF, DTS: pts & 0x1FFFFFFFF})
			}
			pts += 900
		}
		s.Segments = append(s.Segments, seg)
	}
	return s
}

var byteMutKindsMP4 = []string{"truncate-box", "drop-box", "rename-box", "empty-box", "dup-box", "garbage", "empty", "truncate"}
var byteMutKindsSeg = []string{"truncate-box", "drop-box", "rename-box", "empty-box", "dup-box", "garbage", "empty", "truncate", "tfdt-v0", "trun-count"}
var byteMutKindsTS = []string{"ts-truncate-pkt", "ts-truncate-mid", "ts-sync", "ts-drop-pkt", "garbage", "empty", "truncate"}

// faultFMP4 applies one deviation to an fMP4 stream, returns its name.
func faultFMP4(r *rng.R, s *StreamR, isRendition bool) string {
	pickSeg := func() *SegR { return &s.Segments[r.Intn(len(s.Segments))] }
	pickPT := func() *PartTrackR {
		sg := pickSeg()
		if len(sg.Parts) == 0 {
			return nil
		}
		p := &sg.Parts[r.Intn(len(sg.Parts))]
		if len(p.Tracks) == 0 {
			return nil
		}
		return &p.Tracks[r.Intn(len(p.Tracks))]
	}
	if !isRendition && r.Bool(1, 16) {
		// many parts in one segment (valid content): one track, n parts of one sample each.
		// <= 10 or >= 12 entries for the single track: the outcome does not depend on the schedule
		n := []int{9, 10, 12, 13, 16, 40}[r.Intn(6)]
		t := s.Tracks[0]
		s.Tracks = []TrackR{t}
		d := t.TimeScale / 1000
		if d == 0 {
			d = 1
		}
		var seg SegR
		for k := 0; k < n; k++ {
			seg.Parts = append(seg.Parts, PartR{Tracks: []PartTrackR{{ID: t.ID, BaseTime: uint64(k) * uint64(d), Samples: []SampleR{{Dur: d}}}}})
		}
		s.Segments = []SegR{seg}
		return fmt.Sprintf("many-parts:%d", n)
	}
	switch r.Pick(14, 8, 6, 4, 4, 6, 10, 12, 8, 5, 3, 3) {
	case 0: // a codec mediacommon parses and gohlslib has no type for
		c := fmp4Unsupported[r.Intn(len(fmp4Unsupported))]
		switch r.Intn(3) {
		case 0: // replace a track
			i := r.Intn(len(s.Tracks))
			s.Tracks[i].Codec = c
			s.Tracks[i].TimeScale = timescaleOf(c)
			return "unsupported-codec:replace:" + c
		case 1: // add a track that has samples
			if isRendition {
				s.Tracks[0].Codec = c
				return "unsupported-codec:replace:" + c
			}
			id := len(s.Tracks) + 1
			s.Tracks = append(s.Tracks, TrackR{ID: id, TimeScale: timescaleOf(c), Codec: c})
			for g := range s.Segments {
				for p := range s.Segments[g].Parts {
					s.Segments[g].Parts[p].Tracks = append(s.Segments[g].Parts[p].Tracks,
						PartTrackR{ID: id, BaseTime: uint64(g*10+p) * 480, Samples: []SampleR{{Dur: 480}}})
				}
			}
			return "unsupported-codec:add-with-samples:" + c
		default: // add a track that never gets a sample
			if isRendition {
				s.Tracks[0].Codec = c
				return "unsupported-codec:replace:" + c
			}
			s.Tracks = append(s.Tracks, TrackR{ID: len(s.Tracks) + 1, TimeScale: timescaleOf(c), Codec: c})
			return "unsupported-codec:add-without-samples:" + c
		}
	case 1: // time scale 0
		i := r.Intn(len(s.Tracks))
		s.Tracks[i].TimeScale = 0
		return fmt.Sprintf("zero-timescale:track%d", i)
	case 2: // track ids of the parts do not match the init
		switch r.Intn(4) {
		case 0: // permute ids in every part
			for g := range s.Segments {
				for p := range s.Segments[g].Parts {
					ts := s.Segments[g].Parts[p].Tracks
					for i := range ts {
						ts[i].ID = s.Tracks[(i+1)%len(s.Tracks)].ID
					}
				}
			}
			return "track-id:permute-parts"
		case 1: // unknown id
			if pt := pickPT(); pt != nil {
				pt.ID = 77
			}
			return "track-id:unknown-in-part"
		case 2: // init ids changed, parts keep theirs
			for i := range s.Tracks {
				s.Tracks[i].ID = 10 + (len(s.Tracks) - i)
			}
			return "track-id:init-renumbered"
		default: // duplicate ids in the init
			if len(s.Tracks) >= 2 {
				s.Tracks[1].ID = s.Tracks[0].ID
			}
			return "track-id:duplicate-in-init"
		}
	case 3: // missing tracks in parts
		sg := pickSeg()
		for p := range sg.Parts {
			if len(sg.Parts[p].Tracks) > 0 {
				if r.Bool(1, 2) {
					sg.Parts[p].Tracks = sg.Parts[p].Tracks[1:] // drop the first (usually leading) track
				} else {
					sg.Parts[p].Tracks = sg.Parts[p].Tracks[:len(sg.Parts[p].Tracks)-1]
				}
			}
		}
		return "missing-track-in-segment"
	case 4: // too many tracks
		if isRendition {
			s.Tracks = append(s.Tracks, TrackR{ID: 2, TimeScale: 44100, Codec: "mpeg4audio"})
			return "rendition-two-tracks"
		}
		n := 11 + r.Intn(3)
		for len(s.Tracks) < n {
			s.Tracks = append(s.Tracks, TrackR{ID: len(s.Tracks) + 1, TimeScale: 44100, Codec: "mpeg4audio"})
		}
		return fmt.Sprintf("too-many-tracks:%d", n)
	case 5: // empty structures
		switch r.Intn(3) {
		case 0:
			if pt := pickPT(); pt != nil {
				pt.Samples = nil
			}
			return "empty:trun"
		case 1:
			sg := pickSeg()
			if len(sg.Parts) > 0 {
				sg.Parts[r.Intn(len(sg.Parts))].Tracks = nil
			}
			return "empty:moof-without-traf"
		default:
			pickSeg().Parts = nil
			return "empty:segment-without-parts"
		}
	case 6: // byte-level mutation of the init
		m := ByteMut{Kind: byteMutKindsMP4[r.Intn(len(byteMutKindsMP4))], K: r.Intn(1000)}
		s.InitMuts = append(s.InitMuts, m)
		return "init-bytes:" + m.Kind
	case 7: // byte-level mutation of a segment
		m := ByteMut{Kind: byteMutKindsSeg[r.Intn(len(byteMutKindsSeg))], K: r.Intn(1000)}
		if m.Kind == "trun-count" {
			m.K = []int{0, 1, 2, 1000, 100000, 0x7fffffff}[r.Intn(6)]
		}
		sg := pickSeg()
		sg.Muts = append(sg.Muts, m)
		return "segment-bytes:" + m.Kind
	case 8: // absurd times
		pt := pickPT()
		if pt == nil {
			return "absurd-time:none"
		}
		switch r.Intn(6) {
		case 0:
			for i := range pt.Samples {
				pt.Samples[i].Dur = 0
			}
			return "absurd-time:zero-durations"
		case 1:
			if len(pt.Samples) > 0 {
				pt.Samples[0].Dur = 0xFFFFFFFF
			}
			return "absurd-time:huge-duration"
		case 2:
			pt.BaseTime = 1<<63 + uint64(r.Intn(1000))
			return "absurd-time:base-2^63"
		case 3:
			pt.BaseTime = 1 << 62
			return "absurd-time:base-2^62"
		case 4:
			pt.BaseTime = 0xFFFFFFFFFFFFFFFF
			return "absurd-time:base-max"
		default:
			if len(pt.Samples) > 0 {
				pt.Samples[0].PTSOff = -0x7fffffff
			}
			return "absurd-time:negative-pts-offset"
		}
	case 9: // payload the codec's decoder rejects
		if pt := pickPT(); pt != nil && len(pt.Samples) > 0 {
			pt.Samples[r.Intn(len(pt.Samples))].Bad = true
		}
		return "bad-sample-payload"
	case 10: // leading track without data in the first segment only
		sg := &s.Segments[0]
		for p := range sg.Parts {
			var keep []PartTrackR
			for _, pt := range sg.Parts[p].Tracks {
				if pt.ID != s.Tracks[0].ID {
					keep = append(keep, pt)
				}
			}
			sg.Parts[p].Tracks = keep
		}
		return "no-leading-data:first-segment"
	default: // base time going backwards
		if pt := pickPT(); pt != nil {
			pt.BaseTime = 0
		}
		return "base-time-reset"
	}
}

func faultTS(r *rng.R, s *StreamR) string {
	pickSeg := func() *SegR { return &s.Segments[r.Intn(len(s.Segments))] }
	switch r.Pick(10, 4, 3, 8, 4, 5, 12, 3) {
	case 0: // elementary streams gohlslib (or everybody) has no codec for
		n := 1 + r.Intn(3)
		name := ""
		for k := 0; k < n; k++ {
			c := tsUnsupported[r.Intn(len(tsUnsupported))]
			s.Tracks = append(s.Tracks, TrackR{Codec: c})
			name += ":" + c
			idx := len(s.Tracks) - 1
			for g := range s.Segments {
				s.Segments[g].Events = append(s.Segments[g].Events, TSEventR{Track: idx, PTS: 1000, DTS: 1000})
			}
		}
		if r.Bool(1, 3) { // put an unsupported stream first in the PMT
			last := len(s.Tracks) - 1
			s.Tracks[0], s.Tracks[last] = s.Tracks[last], s.Tracks[0]
			for g := range s.Segments {
				for e := range s.Segments[g].Events {
					switch s.Segments[g].Events[e].Track {
					case 0:
						s.Segments[g].Events[e].Track = last
					case last:
						s.Segments[g].Events[e].Track = 0
					}
				}
			}
			name += ":first"
		}
		return "unsupported-es" + name
	case 1: // only unsupported streams
		c := tsUnsupported[r.Intn(len(tsUnsupported))]
		for i := range s.Tracks {
			s.Tracks[i].Codec = c
		}
		return "only-unsupported-es:" + c
	case 2: // more than 10 supported streams
		n := 11 + r.Intn(2)
		for len(s.Tracks) < n {
			s.Tracks = append(s.Tracks, TrackR{Codec: "mpeg4audio"})
			idx := len(s.Tracks) - 1
			s.Segments[0].Events = append(s.Segments[0].Events, TSEventR{Track: idx, PTS: 1000, DTS: 1000})
		}
		return fmt.Sprintf("too-many-es:%d", n)
	case 3: // bad PES
		sg := pickSeg()
		if len(sg.Events) > 0 {
			e := &sg.Events[r.Intn(len(sg.Events))]
			switch r.Intn(3) {
			case 0:
				e.Kind = "bad"
				return "pes:undecodable-payload"
			case 1:
				e.Kind = "nopts"
				return "pes:no-pts"
			default:
				e.DTS = (e.PTS + 90) & 0x1FFFFFFFF
				return "pes:pts-differs-from-dts"
			}
		}
		return "pes:none"
	case 4: // no data of the leading track in one segment
		sg := pickSeg()
		var keep []TSEventR
		for _, e := range sg.Events {
			if e.Track != 0 {
				keep = append(keep, e)
			}
		}
		sg.Events = keep
		return "no-leading-data"
	case 5: // time jumps
		sg := pickSeg()
		if len(sg.Events) > 0 {
			e := &sg.Events[len(sg.Events)-1]
			switch r.Intn(3) {
			case 0:
				e.PTS = (e.PTS + 90000*3600) & 0x1FFFFFFFF // one hour ahead
				e.DTS = e.PTS
				return "time:jump-forward-1h"
			case 1:
				e.PTS = (e.PTS - 90000*3600) & 0x1FFFFFFFF
				e.DTS = e.PTS
				return "time:jump-backward-1h"
			default:
				e.PTS = 0x1FFFFFFFF
				e.DTS = e.PTS
				return "time:max-33bit"
			}
		}
		return "time:none"
	case 6: // byte-level mutation of a segment
		m := ByteMut{Kind: byteMutKindsTS[r.Intn(len(byteMutKindsTS))], K: r.Intn(1000)}
		sg := pickSeg()
		sg.Muts = append(sg.Muts, m)
		return "segment-bytes:" + m.Kind
	default: // AAC stream announced without any data (Reader.Initialize looks for an ADTS header)
		s.Tracks = append(s.Tracks, TrackR{Codec: "mpeg4audio"})
		return "aac-without-data"
	}
}

// genRecipe: one content recipe.
func genRecipe(r *rng.R) *Recipe {
	rc := &Recipe{Kind: "content", CloseAt: -1}
	fmp4Lead := r.Bool(13, 20)
	// one time origin for all streams of a recipe (in 90 kHz ticks): often 0, sometimes an
	// offset; MPEG-TS sometimes just below the 33-bit wrap
	start := uint64(r.Pick(3, 1)) * uint64(r.Range(0, 9000)) // <= 0.1 s: a mismatch between streams must not become a long sleep
	tsStart := start
	if r.Bool(1, 4) {
		tsStart = 0x1FFFFFFFF - uint64(r.Intn(3000))
	}
	var lead StreamR
	if fmp4Lead {
		lead = validFMP4(r, 1+r.Intn(3), false, start)
	} else {
		lead = validTS(r, false, tsStart)
	}
	rc.Streams = append(rc.Streams, lead)
	if r.Bool(2, 5) {
		rc.Multivariant = true
		v := VariantR{Codecs: "avc1.640028,mp4a.40.2", Bandwidth: 1000000 + r.Intn(1000), Stream: 0}
		nrend := r.Pick(3, 5, 2)
		if nrend > 0 {
			v.Audio = "aud"
			for k := 0; k < nrend; k++ {
				var rs StreamR
				if fmp4Lead {
					rs = validFMP4(r, 1, true, start)
				} else {
					rs = validTS(r, true, tsStart)
				}
				rc.Streams = append(rc.Streams, rs)
				rc.Renditions = append(rc.Renditions, RenditionR{GroupID: "aud", Stream: len(rc.Streams) - 1, Name: fmt.Sprintf("a%d", k)})
			}
		}
		// a second variant with a lower bandwidth that must not be chosen
		if r.Bool(1, 2) {
			rc.Variants = append(rc.Variants, VariantR{Codecs: "avc1.42c028", Bandwidth: 1000, Stream: -1})
		}
		rc.Variants = append(rc.Variants, v)
	}

	nf := r.Pick(4, 13, 3)
	for k := 0; k < nf; k++ {
		// where the fault goes
		which := r.Pick(10, 3, 3)
		switch {
		case which == 1 && rc.Multivariant: // the multivariant playlist itself
			switch r.Intn(6) {
			case 0:
				for i := range rc.Variants {
					rc.Variants[i].Codecs = "vp09.00.10.08"
				}
				rc.Faults = append(rc.Faults, "multivariant:no-supported-variant")
			case 1:
				rc.Variants[len(rc.Variants)-1].Audio = "nosuchgroup"
				rc.Faults = append(rc.Faults, "multivariant:audio-group-missing")
			case 2:
				if len(rc.Renditions) > 0 {
					rc.Renditions[0].Stream = -1
					rc.Faults = append(rc.Faults, "multivariant:rendition-without-uri")
				}
			case 3:
				rc.Variants[len(rc.Variants)-1].Stream = -1
				rc.Faults = append(rc.Faults, "multivariant:variant-uri-404")
			case 4:
				// a higher-bandwidth variant with unsupported codecs: must be skipped, not chosen
				rc.Variants = append(rc.Variants, VariantR{Codecs: "av01.0.04M.08", Bandwidth: 9000000, Stream: -1})
				// not a deviation the client should react to: no fault recorded
			default:
				rc.Variants[len(rc.Variants)-1].Codecs = ""
				// CODECS absent: supported by definition, no fault
			}
		case which == 2 && len(rc.Streams) > 1: // a rendition
			i := 1 + r.Intn(len(rc.Streams)-1)
			if r.Bool(1, 4) {
				// mixed containers between renditions
				if rc.Streams[i].Container == "fmp4" {
					rc.Streams[i] = validTS(r, true, tsStart)
				} else {
					rc.Streams[i] = validFMP4(r, 1, true, start)
				}
				rc.Faults = append(rc.Faults, "mixed-containers")
			} else if rc.Streams[i].Container == "fmp4" {
				rc.Faults = append(rc.Faults, "rendition:"+faultFMP4(r, &rc.Streams[i], true))
			} else {
				rc.Faults = append(rc.Faults, "rendition:"+faultTS(r, &rc.Streams[i]))
			}
		case which == 1 && r.Bool(1, 4): // OnTracks refuses
			rc.OnTracksErr = true
			rc.Faults = append(rc.Faults, "ontracks-error")
		default:
			if rc.Streams[0].Container == "fmp4" {
				rc.Faults = append(rc.Faults, faultFMP4(r, &rc.Streams[0], false))
			} else {
				rc.Faults = append(rc.Faults, faultTS(r, &rc.Streams[0]))
			}
		}
	}
	if r.Bool(1, 6) {
		byteRanges(r, rc)
	}
	if len(rc.Faults) > 1 {
		rc.Kind = "content-multi"
	}
	if !fmp4Lead && r.Bool(1, 12) {
		// a long MPEG-TS segment: more access units of one track than the track processor's sample queue
		// holds (clientMPEGTSSampleQueueSize = 100), so that the stream processor is blocked in push
		// in the middle of the segment; then a fatal content fault early in the segment, or Close()
		n := 150 + r.Intn(151)
		rc = longTSRecipe(n, r.Bool(1, 2), 200+r.Intn(500))
		return rc
	}
	if r.Bool(1, 7) {
		// Close() while the request at this position is in flight
		rc.CloseAt = r.Intn(2 + len(rc.Streams)*3)
		rc.Kind = "content-close"
	}
	return rc
}

// byteRanges: the playlists list segments (EXT-X-BYTERANGE) and the init (EXT-X-MAP BYTERANGE) as byte
// ranges, with and without the optional offset. Ranges that cover the whole resource leave the stream valid
// (a tag, no fault); partial ranges cut the payload and count as a deviation.
func byteRanges(r *rng.R, rc *Recipe) {
	whole := []string{"full@0", "full"}
	shape := r.Pick(3, 4, 3, 3, 2, 2)
	for si := range rc.Streams {
		s := &rc.Streams[si]
		switch shape {
		case 0: // every segment with an offset
			for g := range s.Segments {
				s.Segments[g].Range = "full@0"
			}
		case 1: // every segment without an offset
			for g := range s.Segments {
				s.Segments[g].Range = "full"
			}
		case 2: // only the first segment without an offset
			for g := range s.Segments {
				s.Segments[g].Range = "full@0"
			}
			s.Segments[0].Range = "full"
		case 3: // mixed, some segments without any range
			for g := range s.Segments {
				s.Segments[g].Range = []string{"full@0", "full", ""}[r.Intn(3)]
			}
		case 4: // the init only
		case 5: // partial ranges: a deviation
			g := r.Intn(len(s.Segments))
			s.Segments[g].Range = []string{"half@0", "half", "rest@8"}[r.Intn(3)]
			if si == 0 {
				rc.Faults = append(rc.Faults, "byte-range:partial-segment:"+s.Segments[g].Range)
			} else {
				rc.Faults = append(rc.Faults, "rendition:byte-range:partial-segment:"+s.Segments[g].Range)
			}
		}
		if shape <= 3 && r.Bool(1, 3) {
			s.Packed = true // the segments are consecutive sub-ranges of one resource
		}
		if s.Container == "fmp4" && (shape == 4 || r.Bool(1, 2)) {
			s.MapRange = whole[r.Intn(2)]
		}
		if si > 0 && r.Bool(1, 2) {
			break // renditions only sometimes
		}
	}
	rc.Tags = append(rc.Tags, []string{"byte-range:all-with-offset", "byte-range:all-without-offset", "byte-range:first-without-offset",
		"byte-range:mixed", "byte-range:map-only", "byte-range:partial"}[shape])
}

// absurdRangeSpecs: byte ranges whose declared length / offset no resource has. The numbers come from the server
// (the playlist decoder accepts every uint64), so the client must neither size anything by them nor trip over
// offset + length wrapping around 2^64: it sends the Range header it computes and plays what the server returns,
// or ends with an error.
//
//	whole    the unchanged client's request covers the whole resource (the stub answers 206 with all of it): a valid stream
//	partial  the request starts inside the resource: the payload loses its first bytes (a deviation, model-compared)
//	refused  first byte past the end, or last byte before the first after the wrap: the stub answers 416
//	         (oracle-only: the model has no failed segment download)
var absurdRangeSpecs = []struct{ spec, effect string }{
	{"lit:4611686018427387904", "whole"},      // 2^62
	{"lit:4611686018427387904@0", "whole"},    //
	{"lit:9223372036854775807", "whole"},      // 2^63-1
	{"lit:9223372036854775807@0", "whole"},    //
	{"lit:9223372036854775808", "whole"},      // 2^63: negative as an int64 / int
	{"lit:9223372036854775808@0", "whole"},    //
	{"lit:18446744073709551615", "whole"},     // 2^64-1
	{"lit:18446744073709551615@0", "whole"},   //
	{"lit:18446744073709551615@1", "partial"}, // offset + length = 2^64 exactly: last byte 2^64-1
	{"lit:9223372036854775808@8", "partial"},
	{"lit:4611686018427387904@1", "partial"},
	{"lit:0", "whole"},                                           // length 0: the last byte the client computes is 0 - 1 = 2^64-1
	{"lit:0@0", "whole"},                                         //
	{"lit:18446744073709551615@2", "refused"},                    // wraps: last byte 0
	{"lit:18446744073709551615@8", "refused"},                    // wraps: last byte 6
	{"lit:9223372036854775808@9223372036854775808", "refused"},   // 2^63 + 2^63 = 2^64: last byte 2^64-1, first 2^63
	{"lit:9223372036854775807@9223372036854775808", "refused"},   // no wrap, far past the end
	{"lit:18446744073709551615@18446744073709551615", "refused"}, // wraps: last byte 2^64-3
	{"lit:8@18446744073709551615", "refused"},                    // a sane length at an absurd offset: wraps to last byte 6
	{"lit:1@9223372036854775808", "refused"},
	{"lit:4611686018427387904@4611686018427387904", "refused"},
	{"lit:0@8", "refused"}, // last byte 7 before first byte 8
}

// setAbsurdRange lists one segment (seg >= 0) or the init (seg < 0, fMP4) of stream si with an absurd byte range.
func setAbsurdRange(rc *Recipe, si, seg int, k int) {
	a := absurdRangeSpecs[k%len(absurdRangeSpecs)]
	s := &rc.Streams[si]
	what := "segment"
	if seg < 0 {
		s.MapRange = a.spec
		what = "init"
	} else {
		s.Segments[seg].Range = a.spec
	}
	rc.Tags = append(rc.Tags, "byte-range:absurd")
	if a.effect != "whole" {
		f := "byte-range:absurd-" + a.effect + "-" + what + ":" + a.spec[len("lit:"):]
		if si > 0 {
			f = "rendition:" + f
		}
		rc.Faults = append(rc.Faults, f)
	}
}

// genAbsurdRangeRecipe: a content recipe as genRecipe makes them (valid or with deviations) that has no byte
// ranges, plus one absurd range. These recipes are ADDED to a run (their own generator streams), so that the
// recipes a seed produced before stay what they were.
func genAbsurdRangeRecipe(r *rng.R) *Recipe {
	for k := uint64(0); ; k++ {
		f := r.Fork(k)
		rc := genRecipe(f)
		if rc.CloseAfterDataMS > 0 || (len(rc.Faults) > 0 && strings.HasPrefix(rc.Faults[0], "long-segment")) {
			continue
		}
		ranged := false
		for _, s := range rc.Streams {
			ranged = ranged || s.MapRange != "" || s.Packed || len(s.Segments) == 0
			for _, g := range s.Segments {
				ranged = ranged || g.Range != ""
			}
		}
		if ranged {
			continue
		}
		absurdByteRanges(f.Fork(0xB17E5), rc)
		if rc.Kind == "content" && len(rc.Faults) > 1 {
			rc.Kind = "content-multi"
		}
		return rc
	}
}

// absurdByteRanges: one absurd range in a recipe that has no byte ranges yet.
func absurdByteRanges(r *rng.R, rc *Recipe) {
	si := 0
	if len(rc.Streams) > 1 && r.Bool(1, 4) {
		si = 1 + r.Intn(len(rc.Streams)-1)
	}
	s := &rc.Streams[si]
	seg := r.Intn(len(s.Segments))
	if s.Container == "fmp4" && r.Bool(2, 5) {
		seg = -1
	}
	setAbsurdRange(rc, si, seg, r.Intn(len(absurdRangeSpecs)))
}

// absurdRangeBoundaryRecipes: always run. Absurd byte ranges (2^62, 2^63-1, 2^63, 2^64-1, 0; offsets that make
// offset + length wrap around 2^64): every one for an MPEG-TS segment, an fMP4 segment (first and second) and
// the fMP4 init.
func absurdRangeBoundaryRecipes() []*Recipe {
	var out []*Recipe
	for k := range absurdRangeSpecs {
		rc := &Recipe{Kind: "content", CloseAt: -1, Streams: []StreamR{{Container: "mpegts", Tracks: []TrackR{{Codec: "h264"}},
			Segments: []SegR{{Events: []TSEventR{{Track: 0, PTS: 1000, DTS: 1000}, {Track: 0, PTS: 1090, DTS: 1090}}}}}}}
		setAbsurdRange(rc, 0, 0, k)
		out = append(out, rc)
		two := func() *Recipe {
			return &Recipe{Kind: "content", CloseAt: -1, Streams: []StreamR{{Container: "fmp4",
				Tracks: []TrackR{{ID: 1, TimeScale: 90000, Codec: "h264"}},
				Segments: []SegR{{Parts: []PartR{{Tracks: []PartTrackR{{ID: 1, Samples: []SampleR{{Dur: 900}, {Dur: 900}}}}}}},
					{Parts: []PartR{{Tracks: []PartTrackR{{ID: 1, BaseTime: 1800, Samples: []SampleR{{Dur: 900}}}}}}}}}}}
		}
		for _, seg := range []int{-1, 0, 1} {
			rc := two()
			setAbsurdRange(rc, 0, seg, k)
			out = append(out, rc)
		}
	}
	return out
}

// longTSRecipe: one H264 MPEG-TS track, one segment of n access units (n > 100: the stream processor
// demuxes the whole segment at once and blocks in the track processor's push when the sample queue of 100
// is full). jump: the time stamps jump 20 s forward after the first unit - "difference between DTS and RTC
// is too big" from the track processor while the stream processor still has units to push. Otherwise the
// units are 33 ms apart (a 5-10 s segment) and Close() is called closeMS after the first delivered unit.
func longTSRecipe(n int, jump bool, closeMS int) *Recipe {
	var ev []TSEventR
	for i := 0; i < n; i++ {
		ts := int64(1000)
		switch {
		case jump && i > 0:
			ts = 1000 + 20*90000 + int64(i)*90
		case !jump:
			ts = 1000 + int64(i)*3000
		}
		ev = append(ev, TSEventR{Track: 0, PTS: ts, DTS: ts})
	}
	rc := &Recipe{Kind: "content", CloseAt: -1, Streams: []StreamR{{Container: "mpegts",
		Tracks: []TrackR{{Codec: "h264"}}, Segments: []SegR{{Events: ev}}}}}
	if jump {
		rc.Faults = []string{fmt.Sprintf("long-segment:time-jump-after-first-unit:%d", n)}
	} else {
		rc.Kind = "content-close"
		rc.CloseAfterDataMS = closeMS
		rc.Faults = []string{fmt.Sprintf("long-segment:close-mid-segment:%d", n)}
	}
	return rc
}

// boundaryRecipes: hand-picked cases that are always run (the findings' minimal inputs among them).
func boundaryRecipes() []*Recipe {
	one := func(tracks []TrackR, pts []PartTrackR) *Recipe {
		return &Recipe{Kind: "content", CloseAt: -1, Streams: []StreamR{{Container: "fmp4", Tracks: tracks,
			Segments: []SegR{{Parts: []PartR{{Tracks: pts}}}}}}}
	}
	var out []*Recipe
	// F5 minimal input: one M-JPEG track, one sample
	r := one([]TrackR{{ID: 1, TimeScale: 90000, Codec: "mjpeg"}}, []PartTrackR{{ID: 1, Samples: []SampleR{{Dur: 900}}}})
	r.Faults = []string{"unsupported-codec:replace:mjpeg"}
	out = append(out, r)
	// every unsupported codec next to a supported leading track
	for _, c := range fmp4Unsupported {
		r := one([]TrackR{{ID: 1, TimeScale: 90000, Codec: "h264"}, {ID: 2, TimeScale: timescaleOf(c), Codec: c}},
			[]PartTrackR{{ID: 1, Samples: []SampleR{{Dur: 900}}}, {ID: 2, Samples: []SampleR{{Dur: 480}}}})
		r.Faults = []string{"unsupported-codec:add-with-samples:" + c}
		out = append(out, r)
	}
	// unsupported codec that never gets a sample: a nil-Codec track is exposed, nothing else happens
	r = one([]TrackR{{ID: 1, TimeScale: 90000, Codec: "h264"}, {ID: 2, TimeScale: 48000, Codec: "ac3"}},
		[]PartTrackR{{ID: 1, Samples: []SampleR{{Dur: 900}}}})
	r.Faults = []string{"unsupported-codec:add-without-samples:ac3"}
	out = append(out, r)
	// every supported codec alone
	for _, c := range []string{"h264", "h265", "av1", "vp9", "mpeg4audio", "opus"} {
		out = append(out, one([]TrackR{{ID: 1, TimeScale: timescaleOf(c), Codec: c}}, []PartTrackR{{ID: 1, Samples: []SampleR{{Dur: 100}, {Dur: 100}}}}))
	}
	// many parts in one segment of a valid single-track stream: 10, 11 play; 12, 13 wedge the client
	for _, n := range []int{10, 11, 12, 13} {
		var parts []PartR
		for k := 0; k < n; k++ {
			parts = append(parts, PartR{Tracks: []PartTrackR{{ID: 1, BaseTime: uint64(k) * 90, Samples: []SampleR{{Dur: 90}}}}})
		}
		out = append(out, &Recipe{Kind: "content", CloseAt: -1, Faults: []string{fmt.Sprintf("many-parts:%d", n)},
			Streams: []StreamR{{Container: "fmp4", Tracks: []TrackR{{ID: 1, TimeScale: 90000, Codec: "h264"}}, Segments: []SegR{{Parts: parts}}}}})
	}
	// time scale 0: leading track; non-leading track; with a date
	r = one([]TrackR{{ID: 1, TimeScale: 0, Codec: "h264"}}, []PartTrackR{{ID: 1, Samples: []SampleR{{Dur: 900}}}})
	r.Faults = []string{"zero-timescale:track0"}
	out = append(out, r)
	r = one([]TrackR{{ID: 1, TimeScale: 90000, Codec: "h264"}, {ID: 2, TimeScale: 0, Codec: "mpeg4audio"}},
		[]PartTrackR{{ID: 1, Samples: []SampleR{{Dur: 900}}}, {ID: 2, Samples: []SampleR{{Dur: 441}}}})
	r.Faults = []string{"zero-timescale:track1"}
	out = append(out, r)
	r = cloneRecipe(r)
	r.Streams[0].DateTime = true
	out = append(out, r)
	// MPEG-TS segments longer than the track processor's sample queue (100): a fatal content fault early in
	// the segment must still end the client with that error; Close() in the middle must be honoured;
	// at the boundary (100, 101, 102 units) as well
	for _, n := range []int{100, 101, 102, 150, 250} {
		out = append(out, longTSRecipe(n, true, 0))
	}
	out = append(out, longTSRecipe(300, false, 500), longTSRecipe(160, false, 300))
	// byte ranges in the playlists, with and without the optional offset, for segments and EXT-X-MAP
	{
		ts := func(ranges ...string) *Recipe {
			rc := &Recipe{Kind: "content", CloseAt: -1, Streams: []StreamR{{Container: "mpegts", Tracks: []TrackR{{Codec: "h264"}}}}}
			for i, rg := range ranges {
				rc.Streams[0].Segments = append(rc.Streams[0].Segments, SegR{Range: rg,
					Events: []TSEventR{{Track: 0, PTS: int64(1000 + 180*i), DTS: int64(1000 + 180*i)}, {Track: 0, PTS: int64(1090 + 180*i), DTS: int64(1090 + 180*i)}}})
			}
			rc.Tags = []string{"byte-range:" + strings.Join(ranges, ",")}
			return rc
		}
		out = append(out, ts("full"), ts("full@0"), ts("full", "full@0"), ts("full@0", "full"), ts("full", "full", "full"), ts("", "full"))
		// consecutive sub-ranges of one resource: explicit offsets; length-only after the first (the unchanged
		// client then asks from offset 0: C10's recorded finding; here: no panic, no wedge)
		for _, rgs := range [][]string{{"full@0", "full@0", "full@0"}, {"full@0", "full", "full"}, {"full", "full"}} {
			rc := ts(rgs...)
			rc.Streams[0].Packed = true
			rc.Tags = []string{"byte-range:packed:" + strings.Join(rgs, ",")}
			out = append(out, rc)
		}
		for _, rg := range []string{"half", "half@0", "rest@8"} {
			rc := ts(rg)
			rc.Faults = []string{"byte-range:partial-segment:" + rg}
			out = append(out, rc)
		}
		for _, mr := range []string{"full", "full@0", "half", "rest@8"} {
			for _, sr := range []string{"", "full", "full@0"} {
				rc := one([]TrackR{{ID: 1, TimeScale: 90000, Codec: "h264"}}, []PartTrackR{{ID: 1, Samples: []SampleR{{Dur: 900}, {Dur: 900}}}})
				rc.Streams[0].MapRange = mr
				rc.Streams[0].Segments[0].Range = sr
				rc.Tags = []string{"byte-range:map=" + mr + ",segment=" + sr}
				if mr == "half" || mr == "rest@8" {
					rc.Faults = []string{"byte-range:partial-init:" + mr}
				}
				out = append(out, rc)
			}
		}
	}
	// MPEG-TS: every stream type next to H264
	for _, c := range tsUnsupported {
		out = append(out, &Recipe{Kind: "content", CloseAt: -1, Faults: []string{"unsupported-es:" + c}, Streams: []StreamR{{Container: "mpegts",
			Tracks:   []TrackR{{Codec: "h264"}, {Codec: c}},
			Segments: []SegR{{Events: []TSEventR{{Track: 0, PTS: 1000, DTS: 1000}, {Track: 1, PTS: 1000, DTS: 1000}, {Track: 0, PTS: 1900, DTS: 1900}}}}}}})
	}
	// byte-level mutations at EVERY box (boundary) of a canonical init and of a canonical segment
	canon := func() *Recipe {
		return &Recipe{Kind: "content", CloseAt: -1, Streams: []StreamR{{Container: "fmp4",
			Tracks: []TrackR{{ID: 1, TimeScale: 90000, Codec: "h264"}, {ID: 2, TimeScale: 44100, Codec: "mpeg4audio"}},
			Segments: []SegR{{Parts: []PartR{{Tracks: []PartTrackR{
				{ID: 1, Samples: []SampleR{{Dur: 900}, {Dur: 900}}}, {ID: 2, Samples: []SampleR{{Dur: 441}}}}}}},
				{Parts: []PartR{{Tracks: []PartTrackR{
					{ID: 1, BaseTime: 1800, Samples: []SampleR{{Dur: 900}}}, {ID: 2, BaseTime: 441, Samples: []SampleR{{Dur: 441}}}}}}}}}}}
	}
	{
		cb, err := buildRecipe(canon())
		if err != nil {
			panic(err)
		}
		nInit := len(listBoxes(cb.Inits[0]))
		nSeg := len(listBoxes(cb.Segs[0][0]))
		for _, kind := range []string{"truncate-box", "drop-box", "rename-box", "empty-box", "dup-box"} {
			lim := nInit
			if kind == "truncate-box" {
				lim = 2 * nInit
			}
			for k := 0; k < lim; k++ {
				c := canon()
				c.Streams[0].InitMuts = []ByteMut{{Kind: kind, K: k}}
				c.Faults = []string{"init-bytes:" + kind}
				out = append(out, c)
			}
			lim = nSeg
			if kind == "truncate-box" {
				lim = 2 * nSeg
			}
			for k := 0; k < lim; k++ {
				for g := 0; g < 2; g++ { // at both segment positions
					c := canon()
					c.Streams[0].Segments[g].Muts = []ByteMut{{Kind: kind, K: k}}
					c.Faults = []string{"segment-bytes:" + kind}
					out = append(out, c)
				}
			}
		}
	}
	// mixed containers between leading stream and rendition, both ways
	for _, leadFMP4 := range []bool{true, false} {
		rr := rng.New(7, 7)
		var lead, rend StreamR
		if leadFMP4 {
			lead, rend = validFMP4(rr, 1, false, 0), validTS(rr, true, 0)
		} else {
			lead, rend = validTS(rr, false, 0), validFMP4(rr, 1, true, 0)
		}
		out = append(out, &Recipe{Kind: "content", CloseAt: -1, Multivariant: true, Faults: []string{"mixed-containers"},
			Variants:   []VariantR{{Codecs: "avc1.640028,mp4a.40.2", Bandwidth: 1000000, Stream: 0, Audio: "aud"}},
			Renditions: []RenditionR{{GroupID: "aud", Stream: 1, Name: "a"}},
			Streams:    []StreamR{lead, rend}})
	}
	return out
}
