package main

// Second model-compared stream: the client's playlist index expressions, evaluated on the
// REAL functions of /repo (exported under -tags verif) for generated values, nil elements
// included (under recover()), against Model/ClientContent.v.

import (
	"fmt"
	"strings"
	"time"

	"github.com/bluenviron/gohlslib/v2"
	"github.com/bluenviron/gohlslib/v2/pkg/playlist"

	"verifharness/internal/coqfmt"
	"verifharness/internal/rng"
)

type pcaseRec struct {
	Shard int    `json:"shard"`
	Index int    `json:"index"`
	Call  string `json:"call"` // the Coq term of the call
	Obs   string `json:"obs"`
}

func guarded(f func() string) (out string) {
	defer func() {
		if r := recover(); r != nil {
			out = "PPanic"
		}
	}()
	return f()
}

var codecPool = []string{
	"avc1.640028", "avc1.", "avc1", "hvc1.1.6.L93.B0", "hev1.1.6.L93.B0", "mp4a.40.2", "mp4a.", "mp4a", "opus", "Opus",
	"opus.", "vp09.00.10.08", "av01.0.04M.08", "ec-3", "", " avc1.640028", "AVC1.640028",
}

func genSegs(r *rng.R) ([]*playlist.MediaSegment, string) {
	n := r.Pick(2, 2, 2, 2, 2, 1, 1, 1, 1)
	var segs []*playlist.MediaSegment
	var it []string
	for i := 0; i < n; i++ {
		if r.Bool(1, 10) {
			segs = append(segs, nil)
			it = append(it, "None")
			continue
		}
		s := &playlist.MediaSegment{URI: "x.ts", Duration: time.Duration(r.Range(1, 5000)) * time.Millisecond}
		dt := "None"
		if r.Bool(1, 2) {
			t := time.Unix(1262307661+int64(r.Intn(1000)), int64(r.Intn(1000))*1000000).UTC()
			s.DateTime = &t
			dt = "(Some " + coqfmt.Z(t.UnixNano()) + ")"
		}
		segs = append(segs, s)
		it = append(it, fmt.Sprintf("SG %s %s", dt, coqfmt.Z(int64(s.Duration))))
	}
	return segs, coqfmt.List(it)
}

// playlistUseCases evaluates n generated calls on the real functions.
func playlistUseCases(seed uint64, n int) (terms []string, obs []string) {
	for i := 0; i < n; i++ {
		r := rng.New(seed, uint64(1<<41)+uint64(i))
		switch r.Pick(3, 3, 3, 3, 2) {
		case 0:
			segs, sc := genSegs(r)
			var parts []*playlist.MediaPart
			var pit []string
			for k := r.Intn(4); k > 0; k-- {
				if r.Bool(1, 8) {
					parts = append(parts, nil)
					pit = append(pit, "None")
				} else {
					d := time.Duration(r.Range(1, 900)) * time.Millisecond
					parts = append(parts, &playlist.MediaPart{Duration: d, URI: "p.mp4"})
					pit = append(pit, "PR "+coqfmt.Z(int64(d)))
				}
			}
			pl := &playlist.Media{Segments: segs, Parts: parts}
			o := guarded(func() string {
				t := gohlslib.VerifDateTimeOfPreloadHint(pl)
				if t == nil {
					return "PNone"
				}
				return "PTime " + coqfmt.Z(t.UnixNano())
			})
			terms = append(terms, fmt.Sprintf("CDateTime (MD %s %s)", sc, coqfmt.List(pit)))
			obs = append(obs, o)
		case 1:
			segs, sc := genSegs(r)
			inv := int(r.Range(-2, 10))
			if r.Bool(1, 2) {
				inv = 3 // clientLiveInitialDistance
			}
			o := guarded(func() string {
				// the export reports (seg != nil, index); a nil result pointer with index 0 is "not found"
				// only when index < 0, which the model reports as PNone
				idx := len(segs) - inv
				found, i := gohlslib.VerifFindSegmentWithInvPosition(segs, inv)
				if idx < 0 {
					return "PNone"
				}
				return fmt.Sprintf("PFound %s %s 0", coqfmt.Bool(found), coqfmt.Z(int64(i)))
			})
			terms = append(terms, fmt.Sprintf("CInvPos %s %s", sc, coqfmt.Z(int64(inv))))
			obs = append(obs, o)
		case 2:
			segs, sc := genSegs(r)
			seq := int(r.Range(0, 20))
			id := seq + int(r.Range(-3, 10))
			o := guarded(func() string {
				idx := id - seq
				found, i, inv := gohlslib.VerifFindSegmentWithID(seq, segs, id)
				if idx < 0 || idx >= len(segs) {
					return "PNone"
				}
				return fmt.Sprintf("PFound %s %s %s", coqfmt.Bool(found), coqfmt.Z(int64(i)), coqfmt.Z(int64(inv)))
			})
			terms = append(terms, fmt.Sprintf("CWithID %s %s %s", coqfmt.Z(int64(seq)), sc, coqfmt.Z(int64(id))))
			obs = append(obs, o)
		case 3:
			n := r.Intn(6)
			var vs []*playlist.MultivariantVariant
			var it []string
			for k := 0; k < n; k++ {
				if r.Bool(1, 12) {
					vs = append(vs, nil)
					it = append(it, "None")
					continue
				}
				var cs []string
				for c := r.Intn(3); c > 0; c-- {
					cs = append(cs, codecPool[r.Intn(len(codecPool))])
				}
				bw := int(r.Range(0, 4)) * 1000
				vs = append(vs, &playlist.MultivariantVariant{Codecs: cs, Bandwidth: bw, URI: "v.m3u8"})
				it = append(it, fmt.Sprintf("VR %s %s (U true %s) %s", coqStrList(cs), coqfmt.Z(int64(bw)), coqfmt.Nat(k), coqfmt.Str("")))
			}
			o := guarded(func() string {
				i := gohlslib.VerifPickLeadingPlaylist(vs)
				if i < 0 {
					return "PNone"
				}
				return "PIdx " + coqfmt.Z(int64(i))
			})
			terms = append(terms, "CPick "+coqfmt.List(it))
			obs = append(obs, o)
		default:
			var cs []string
			for c := r.Intn(4); c > 0; c-- {
				cs = append(cs, codecPool[r.Intn(len(codecPool))])
			}
			o := guarded(func() string { return "PBool " + coqfmt.Bool(gohlslib.VerifCheckSupport(cs)) })
			terms = append(terms, "CSupport "+coqStrList(cs))
			obs = append(obs, o)
		}
	}
	return
}

func writePCaseShard(path string, terms, obs []string) error {
	var sb strings.Builder
	sb.WriteString("From Coq Require Import List ZArith String.\n")
	sb.WriteString("From GoHls Require Import Model.ClientContent Tie.ClientContentTie.\n")
	sb.WriteString("Import ListNotations. Open Scope Z_scope.\n")
	sb.WriteString("Definition cases : list pcase := [\n")
	for i := range terms {
		if i > 0 {
			sb.WriteString(";\n")
		}
		fmt.Fprintf(&sb, "PC (%s) (%s)", terms[i], obs[i])
	}
	sb.WriteString("\n].\nDefinition M := Eval vm_compute in pmismatches cases.\nPrint M.\n")
	return writeFile(path, sb.String())
}
