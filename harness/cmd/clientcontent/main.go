// Command clientcontent is the C13 harness: it runs the REAL gohlslib.Client in child
// processes (this binary re-executed with -child) against an in-process stub RoundTripper
// serving structure-aware mutations of valid init / segment / part payloads and playlists,
// classifies every outcome (tracks exposed, units delivered, OnDecodeError, Wait error, panic,
// hang), applies the property oracle (never panic, never hang / busy-loop, Close honoured) and
// writes the parsed descriptions + observed classes as Coq cases for the model comparison.
package main

import (
	"bytes"
	"crypto/sha256"
	"encoding/hex"
	"encoding/json"
	"flag"
	"fmt"
	"os"
	"os/exec"
	"path/filepath"
	"regexp"
	"sort"
	"strconv"
	"strings"
	"sync"
	"time"

	"verifharness/internal/coqfmt"
	"verifharness/internal/rng"
)

// ---------- running one recipe ----------

type runResult struct {
	Class        string       `json:"class"` // eos | err | closed | panic | hang | busy | infra
	Child        *childResult `json:"child,omitempty"`
	Exit         int          `json:"exit"`
	PanicMsg     string       `json:"panic_msg,omitempty"`
	PanicKind    string       `json:"panic_kind,omitempty"` // nil | div | index | assert | other
	Frames       []string     `json:"frames,omitempty"`     // top frames (function names) of the panicking goroutine
	Trace        string       `json:"trace,omitempty"`      // head of the trace
	TracksCalled bool         `json:"tracks_called"`
	Tracks       []string     `json:"tracks"`
	WallMS       int64        `json:"wall_ms"`
}

var frameRe = regexp.MustCompile(`^([^\s(][^\n]*?)\(.*\)$`)

func parsePanic(stderr string) (msg, kind string, frames []string, head string) {
	lines := strings.Split(stderr, "\n")
	start := -1
	for i, l := range lines {
		if strings.HasPrefix(l, "panic: ") || strings.HasPrefix(l, "fatal error: ") {
			start = i
			msg = l
			break
		}
	}
	if start < 0 {
		return "", "", nil, ""
	}
	switch {
	case strings.Contains(msg, "nil pointer dereference"):
		kind = "nil"
	case strings.Contains(msg, "divide by zero"):
		kind = "div"
	case strings.Contains(msg, "index out of range") || strings.Contains(msg, "slice bounds out of range"):
		kind = "index"
	case strings.Contains(msg, "interface conversion"):
		kind = "assert"
	default:
		kind = "other"
	}
	// the first goroutine block after the message is the panicking one
	inG := false
	for _, l := range lines[start+1:] {
		if strings.HasPrefix(l, "goroutine ") {
			if inG {
				break
			}
			inG = true
			continue
		}
		if !inG {
			continue
		}
		if l == "" {
			break
		}
		if strings.HasPrefix(l, "\t") || strings.HasPrefix(l, "created by") {
			continue
		}
		f := l
		if i := strings.LastIndex(f, "("); i > 0 {
			f = f[:i]
		}
		frames = append(frames, f)
	}
	end := start + 14
	if end > len(lines) {
		end = len(lines)
	}
	// drop addresses so that the head is stable
	hexRe := regexp.MustCompile(`0x[0-9a-f]+`)
	head = hexRe.ReplaceAllString(strings.Join(lines[start:end], "\n"), "0x?")
	head = regexp.MustCompile(`goroutine \d+`).ReplaceAllString(head, "goroutine N")
	return
}

func runJob(self string, jobPath string, j *job) runResult {
	t0 := time.Now()
	cmd := exec.Command(self, "-child", jobPath)
	var so, se bytes.Buffer
	cmd.Stdout = &so
	cmd.Stderr = &se
	cmd.Env = append(os.Environ(), "GOTRACEBACK=all", "GOMAXPROCS=4")
	if err := cmd.Start(); err != nil {
		return runResult{Class: "infra", PanicMsg: err.Error()}
	}
	done := make(chan error, 1)
	go func() { done <- cmd.Wait() }()
	limit := time.Duration(j.DeadlineMS+j.CloseDeadlineMS+10000) * time.Millisecond
	var werr error
	select {
	case werr = <-done:
	case <-time.After(limit):
		cmd.Process.Kill()
		<-done
		return runResult{Class: "hang", PanicMsg: "child process unresponsive: killed by the parent", WallMS: time.Since(t0).Milliseconds()}
	}
	rr := runResult{WallMS: time.Since(t0).Milliseconds()}
	if ee, ok := werr.(*exec.ExitError); ok {
		rr.Exit = ee.ExitCode()
	} else if werr != nil {
		rr.Class = "infra"
		rr.PanicMsg = werr.Error()
		return rr
	}
	stderr := se.String()
	for _, l := range strings.Split(stderr, "\n") {
		if strings.HasPrefix(l, "VERIF-TRACKS ") {
			rr.TracksCalled = true
			json.Unmarshal([]byte(l[len("VERIF-TRACKS "):]), &rr.Tracks)
		}
	}
	var cr childResult
	if json.Unmarshal(bytes.TrimSpace(so.Bytes()), &cr) == nil && so.Len() > 0 {
		rr.Child = &cr
	}
	switch {
	case rr.Exit == 2 || (rr.Child == nil && strings.Contains(stderr, "panic: ")) || strings.Contains(stderr, "fatal error: "):
		rr.Class = "panic"
		rr.PanicMsg, rr.PanicKind, rr.Frames, rr.Trace = parsePanic(stderr)
		if rr.PanicMsg == "" {
			rr.Class = "infra"
			rr.PanicMsg = "exit 2 without a panic message: " + tail(stderr, 400)
		}
	case rr.Exit == 3 || (rr.Child != nil && rr.Child.Hang):
		rr.Class = "hang"
		if rr.Child != nil && rr.Child.WallMillis > 0 && rr.Child.CPUMillis*2 > rr.Child.WallMillis {
			rr.Class = "busy" // it does not finish AND it burns CPU: a busy loop
		}
		rr.Trace = tail(stderr, 6000)
	case rr.Child == nil:
		rr.Class = "infra"
		rr.PanicMsg = fmt.Sprintf("exit %d, no result: %s", rr.Exit, tail(stderr, 400))
	case rr.Child.CPUMillis > 20000:
		rr.Class = "busy"
	case rr.Child.NeededClose && !rr.Child.Sleeping:
		rr.Class = "stall" // everything served, nobody sleeping or downloading, yet no end: wedged until Close()
	case rr.Child.ClosedByPlan || rr.Child.NeededClose:
		rr.Class = "closed"
	case rr.Child.WaitErr == "end of stream":
		rr.Class = "eos"
	default:
		rr.Class = "err"
	}
	return rr
}

func tail(s string, n int) string {
	if len(s) > n {
		return s[len(s)-n:]
	}
	return s
}

// ---------- classification for the model comparison ----------

var fixedErrClass = []struct{ sub, class string }{
	{"bad status code", "EHttp"},
	{"no variants with supported codecs found", "ENoVariants"},
	{"no playlist with Group ID", "ENoGroup"},
	{"rendition playlists with multiple tracks are not supported", "ERenditionMultiTrack"},
	{"too many tracks per stream", "ETooManyTracks"},
	{"could not find data of leading track", "ENoLeadingData"},
	{"stream playlists are mixed", "EMixed"},
	{"difference between DTS and RTC is too big", "EDtsRtc"},
	{"no supported tracks found", "ENoSupportedTracks"},
	{"verif: OnTracks refused", "EOnTracks"},
	{"terminated", "EBlocked"},
	{"no segments found", "ENoSegments"},
	{"there aren't enough segments to fill the buffer", "ENotEnough"},
	{"next segment not found or not ready yet", "ENextNotFound"},
	{"playback is too late", "ETooLate"},
	{"preload hint disappeared", "EHintGone"},
	{"invalid time scale", "EInvalidTimeScale"}, // only with the proposed repair
}

// endClasses: the Coq oend terms the observed end is compatible with. Error texts that come
// from mediacommon are attributed by provenance: the parent ran the same parser on the same
// bytes and knows which call returns that text.
func endClasses(rr *runResult, a *abstraction) []string {
	switch rr.Class {
	case "eos":
		return []string{"OEOS"}
	case "stall":
		return []string{"OErr EBlocked"}
	case "panic":
		switch rr.PanicKind {
		case "nil":
			return []string{"OPanic QNil"}
		case "div":
			return []string{"OPanic QDiv"}
		case "index":
			return []string{"OPanic QIndex"}
		case "assert":
			return []string{"OPanic QAssert"}
		}
		return []string{"OOther"}
	case "err":
		w := rr.Child.WaitErr
		for _, f := range fixedErrClass {
			if strings.Contains(w, f.sub) {
				return []string{"OErr " + f.class}
			}
		}
		set := map[string]bool{}
		for i := range a.Streams {
			s := &a.Streams[i]
			if s.InitBad && s.InitErr == w {
				set["OErr EInitParse"] = true
			}
			for _, g := range s.FSegs {
				if g.Bad && g.Err == w {
					set["OErr ESegParse"] = true
				}
			}
			if s.DecodeErrs[w] {
				set["OErr EDecode"] = true
			}
			if s.PMTBad && s.PMTErr == w {
				set["OErr ETsInit"] = true
			}
			if s.FatalErr != "" && s.FatalErr == w {
				set["OErr ETsRead"] = true
			}
		}
		var out []string
		for k := range set {
			out = append(out, k)
		}
		sort.Strings(out)
		if len(out) == 0 {
			return []string{"OOther"}
		}
		return out
	}
	return []string{"OOther"}
}

func coqTracks(called bool, tracks []string) string {
	if !called {
		return "None"
	}
	var it []string
	for _, t := range tracks {
		if t == "nil" {
			it = append(it, "None")
		} else {
			it = append(it, "Some G"+t)
		}
	}
	return "(Some " + coqfmt.List(it) + ")"
}

// ---------- signatures ----------

func repoFrame(frames []string) string {
	for _, f := range frames {
		if strings.Contains(f, "bluenviron/gohlslib/v2.") {
			f = f[strings.Index(f, "gohlslib/v2.")+len("gohlslib/v2."):]
			f = strings.NewReplacer("(*", "", ")", "", "(", "").Replace(f)
			return f
		}
	}
	if len(frames) > 0 {
		return frames[0]
	}
	return "unknown"
}

func firstNonHelperRepoFrame(frames []string) string {
	for _, f := range frames {
		if strings.Contains(f, "bluenviron/gohlslib/v2.") &&
			!strings.Contains(f, "multiplyAndDivide") && !strings.Contains(f, "timestampToDuration") {
			f = f[strings.Index(f, "gohlslib/v2.")+len("gohlslib/v2."):]
			return strings.NewReplacer("(*", "", ")", "", "(", "").Replace(f)
		}
	}
	return repoFrame(frames)
}

func recipeCause(r *Recipe) (container, cause string) {
	container = "none"
	if len(r.Streams) > 0 {
		container = r.Streams[0].Container
	}
	cause = "content"
	zero, unsup := false, false
	for _, s := range r.Streams {
		if s.Container != "fmp4" {
			continue
		}
		for _, t := range s.Tracks {
			if !fmp4Supported(t.Codec) {
				unsup = true
				container = "fmp4"
			}
			if t.TimeScale == 0 {
				zero = true
				container = "fmp4"
			}
		}
	}
	many := recipeHasManyPartTracks(r)
	long := false
	for _, s := range r.Streams {
		if s.Container != "mpegts" {
			continue
		}
		for _, g := range s.Segments {
			per := map[int]int{}
			for _, e := range g.Events {
				per[e.Track]++
				if per[e.Track] > 100 {
					long = true
				}
			}
		}
	}
	switch {
	case recipeHasLiteralRange(r) && !unsup && !zero && !many && !long:
		cause = "absurd-byte-range"
	case recipeHasRangeWithoutOffset(r) && !unsup && !zero && !many && !long:
		cause = "byte-range-without-offset"
	case long && !unsup && !zero && !many:
		cause = "more-than-100-units-of-a-track-per-segment"
		container = "mpegts"
	case many && !unsup && !zero:
		cause = "more-than-10-part-tracks-per-segment"
		container = "fmp4"
	case unsup:
		cause = "unsupported-codec"
	case zero:
		cause = "zero-timescale"
	case r.Kind == "playlist-corpus":
		cause = "playlist"
	}
	return
}

// signature of a (minimised) failing recipe: C13:<container>:<cause>:<site>
func signature(r *Recipe, rr *runResult) string {
	container, cause := recipeCause(r)
	switch rr.Class {
	case "panic":
		site := ""
		fr := firstNonHelperRepoFrame(rr.Frames)
		switch {
		case rr.PanicKind == "nil" && strings.Contains(fr, "clientTrackProcessorFMP4.process"):
			site = "nil-decodePayload"
		case rr.PanicKind == "div":
			site = "divide-by-zero"
		default:
			site = rr.PanicKind + "@" + fr
		}
		return fmt.Sprintf("C13:%s:%s:%s", container, cause, site)
	case "hang":
		if r.CloseAt >= 0 || r.CloseAfterDataMS > 0 {
			// the harness called Close() by plan and Wait() still did not return
			return fmt.Sprintf("C13:%s:%s:hang:planned-close-not-honoured", container, cause)
		}
		return fmt.Sprintf("C13:%s:%s:hang", container, cause)
	case "busy":
		return fmt.Sprintf("C13:%s:%s:busy-loop", container, cause)
	case "stall":
		if recipeHasManyPartTracks(r) { // the wedge needs nothing else
			container, cause = "fmp4", "more-than-10-part-tracks-per-segment"
		}
		return fmt.Sprintf("C13:%s:%s:stall-until-close", container, cause)
	}
	return fmt.Sprintf("C13:%s:%s:%s", container, cause, rr.Class)
}

// ---------- the per-recipe pipeline ----------

type failure struct {
	Signature string          `json:"signature"`
	What      string          `json:"what"`
	Input     json.RawMessage `json:"input"`
}

type caseRec struct {
	ID     int      `json:"id"`
	Shard  int      `json:"shard"`
	Index  int      `json:"index"`
	Hash   string   `json:"hash"`
	Faults []string `json:"faults"`
	Class  string   `json:"class"`
	Ends   []string `json:"ends"`
	Recipe *Recipe  `json:"recipe"`
}

type done struct {
	id     int
	recipe *Recipe
	abs    *abstraction
	rr     runResult
	err    string
	// lit: the recipe lists a resource with a literal (absurd) byte range; refused: one the stub answers with 416
	lit, refused bool
}

type runner struct {
	self    string
	dir     string
	quickDL int
}

func (rn *runner) exec(id string, r *Recipe) (*built, runResult, error) {
	b, err := buildRecipe(r)
	if err != nil {
		return nil, runResult{}, err
	}
	b.Job.DeadlineMS = rn.quickDL
	b.Job.CloseDeadlineMS = rn.quickDL
	jp := filepath.Join(rn.dir, "job_"+id+".json")
	jb, _ := json.Marshal(b.Job)
	if err := os.WriteFile(jp, jb, 0o644); err != nil {
		return nil, runResult{}, err
	}
	rr := runJob(rn.self, jp, &b.Job)
	os.Remove(jp)
	return b, rr, nil
}

// minimise a panicking recipe: greedy, keeps the panic kind and the repo frame
func (rn *runner) minimise(r *Recipe, rr runResult) (*Recipe, runResult) {
	same := func(x runResult) bool {
		return x.Class == "panic" && x.PanicKind == rr.PanicKind && firstNonHelperRepoFrame(x.Frames) == firstNonHelperRepoFrame(rr.Frames)
	}
	cur, curRR := r, rr
	budget := 60
	try := func(c *Recipe) bool {
		if budget <= 0 {
			return false
		}
		budget--
		_, x, err := rn.exec("min", c)
		if err == nil && same(x) {
			cur, curRR = c, x
			return true
		}
		return false
	}
	for progress := true; progress && budget > 0; {
		progress = false
		// media primary with the leading stream only
		if cur.Multivariant {
			c := cloneRecipe(cur)
			c.Multivariant, c.Variants, c.Renditions = false, nil, nil
			c.Streams = c.Streams[:1]
			if try(c) {
				progress = true
				continue
			}
			// or: only the failing rendition as the only stream
			for i := 1; i < len(cur.Streams); i++ {
				c := cloneRecipe(cur)
				c.Multivariant, c.Variants, c.Renditions = false, nil, nil
				c.Streams = []StreamR{c.Streams[i]}
				if try(c) {
					progress = true
					break
				}
			}
			if progress {
				continue
			}
		}
		if cur.CloseAt >= 0 || cur.OnTracksErr || cur.CloseAfterDataMS > 0 {
			c := cloneRecipe(cur)
			c.CloseAt, c.OnTracksErr, c.CloseAfterDataMS = -1, false, 0
			if try(c) {
				progress = true
				continue
			}
		}
		hasRange := false
		for _, s := range cur.Streams {
			if s.MapRange != "" || s.Packed {
				hasRange = true
			}
			for _, g := range s.Segments {
				if g.Range != "" {
					hasRange = true
				}
			}
		}
		if hasRange {
			c := cloneRecipe(cur)
			for si := range c.Streams {
				c.Streams[si].MapRange = ""
				c.Streams[si].Packed = false
				for g := range c.Streams[si].Segments {
					c.Streams[si].Segments[g].Range = ""
				}
			}
			if try(c) {
				progress = true
				continue
			}
		}
		for si := range cur.Streams {
			s := &cur.Streams[si]
			if s.DateTime {
				c := cloneRecipe(cur)
				c.Streams[si].DateTime = false
				if try(c) {
					progress = true
					break
				}
			}
			if len(s.InitMuts) > 0 {
				c := cloneRecipe(cur)
				c.Streams[si].InitMuts = nil
				if try(c) {
					progress = true
					break
				}
			}
			if len(s.Segments) > 1 {
				for k := range s.Segments {
					c := cloneRecipe(cur)
					c.Streams[si].Segments = append(c.Streams[si].Segments[:k:k], c.Streams[si].Segments[k+1:]...)
					if try(c) {
						progress = true
						break
					}
				}
				if progress {
					break
				}
			}
			for g := range s.Segments {
				sg := &s.Segments[g]
				if len(sg.Muts) > 0 {
					c := cloneRecipe(cur)
					c.Streams[si].Segments[g].Muts = nil
					if try(c) {
						progress = true
						break
					}
				}
				if len(sg.Parts) > 1 {
					c := cloneRecipe(cur)
					c.Streams[si].Segments[g].Parts = c.Streams[si].Segments[g].Parts[:1]
					if try(c) {
						progress = true
						break
					}
					c = cloneRecipe(cur)
					c.Streams[si].Segments[g].Parts = c.Streams[si].Segments[g].Parts[1:]
					if try(c) {
						progress = true
						break
					}
				}
				if len(sg.Events) > 1 {
					for k := range sg.Events {
						c := cloneRecipe(cur)
						ev := c.Streams[si].Segments[g].Events
						c.Streams[si].Segments[g].Events = append(ev[:k:k], ev[k+1:]...)
						if try(c) {
							progress = true
							break
						}
					}
					if progress {
						break
					}
				}
				for p := range sg.Parts {
					for t := range sg.Parts[p].Tracks {
						if len(sg.Parts[p].Tracks) > 1 {
							c := cloneRecipe(cur)
							ts := c.Streams[si].Segments[g].Parts[p].Tracks
							c.Streams[si].Segments[g].Parts[p].Tracks = append(ts[:t:t], ts[t+1:]...)
							if try(c) {
								progress = true
								break
							}
						}
						if len(sg.Parts[p].Tracks[t].Samples) > 1 {
							c := cloneRecipe(cur)
							c.Streams[si].Segments[g].Parts[p].Tracks[t].Samples = c.Streams[si].Segments[g].Parts[p].Tracks[t].Samples[:1]
							if try(c) {
								progress = true
								break
							}
						}
					}
					if progress {
						break
					}
				}
				if progress {
					break
				}
			}
			if progress {
				break
			}
			// drop init tracks (ids stay)
			if len(s.Tracks) > 1 {
				for t := range s.Tracks {
					c := cloneRecipe(cur)
					c.Streams[si].Tracks = append(c.Streams[si].Tracks[:t:t], c.Streams[si].Tracks[t+1:]...)
					if try(c) {
						progress = true
						break
					}
				}
				if progress {
					break
				}
			}
		}
	}
	cur.Faults = nil
	return cur, curRR
}

// ---------- playlist corpus (oracle-only stream) ----------

func readCorpus(repo string) [][]byte {
	var out [][]byte
	seen := map[string]bool{}
	add := func(b []byte) {
		if !seen[string(b)] {
			seen[string(b)] = true
			out = append(out, b)
		}
	}
	dirs, _ := filepath.Glob(filepath.Join(repo, "pkg/playlist/testdata/fuzz/*"))
	dirs2, _ := filepath.Glob(filepath.Join(repo, "testdata/fuzz/*"))
	for _, d := range append(dirs, dirs2...) {
		files, _ := filepath.Glob(filepath.Join(d, "*"))
		sort.Strings(files)
		for _, f := range files {
			raw, err := os.ReadFile(f)
			if err != nil {
				continue
			}
			for _, l := range strings.Split(string(raw), "\n") {
				l = strings.TrimSpace(l)
				for _, pre := range []string{"string(", "[]byte("} {
					if strings.HasPrefix(l, pre) && strings.HasSuffix(l, ")") {
						if s, err := strconv.Unquote(l[len(pre) : len(l)-1]); err == nil {
							add([]byte(s))
						}
					}
				}
			}
		}
	}
	return out
}

const liveTSPlaylist = "#EXTM3U\n#EXT-X-VERSION:3\n#EXT-X-TARGETDURATION:2\n#EXT-X-MEDIA-SEQUENCE:5\n" +
	"#EXTINF:1,\ns0_seg0.ts\n#EXTINF:1,\ns0_seg0.ts\n#EXTINF:1,\ns0_seg0.ts\n"

const llPlaylist = "#EXTM3U\n#EXT-X-VERSION:9\n#EXT-X-TARGETDURATION:2\n#EXT-X-SERVER-CONTROL:CAN-BLOCK-RELOAD=YES,PART-HOLD-BACK=1.0\n" +
	"#EXT-X-PART-INF:PART-TARGET=0.5\n#EXT-X-MEDIA-SEQUENCE:5\n#EXT-X-MAP:URI=\"s0_init.mp4\"\n" +
	"#EXTINF:1,\ns0_seg0.mp4\n#EXTINF:1,\ns0_seg0.mp4\n#EXT-X-PRELOAD-HINT:TYPE=PART,URI=\"s0_seg0.mp4\"\n"

// ---------- grammar-aware, line-level mutations of playlists ----------

// Valid playlists that between them carry every tag the decoder reads (so that a mutated line reaches every
// tag's split / index / attribute expressions): EXTINF with and without title, EXT-X-BYTERANGE with and without
// offset, EXT-X-MAP with BYTERANGE, EXT-X-PART, EXT-X-PRELOAD-HINT, EXT-X-KEY, EXT-X-PROGRAM-DATE-TIME,
// EXT-X-SERVER-CONTROL, EXT-X-PART-INF, EXT-X-SKIP, EXT-X-START, EXT-X-STREAM-INF, EXT-X-MEDIA, ...
// The URIs are the ones the corpus recipes serve (byte ranges longer than the resource: the stub returns what exists).
const vodTSBase = "#EXTM3U\n#EXT-X-VERSION:4\n#EXT-X-INDEPENDENT-SEGMENTS\n#EXT-X-START:TIME-OFFSET=0.5\n#EXT-X-ALLOW-CACHE:YES\n" +
	"#EXT-X-TARGETDURATION:2\n#EXT-X-MEDIA-SEQUENCE:0\n#EXT-X-DISCONTINUITY-SEQUENCE:0\n#EXT-X-PLAYLIST-TYPE:VOD\n" +
	"#EXT-X-KEY:METHOD=AES-128,URI=\"key.bin\",IV=0x00000000000000000000000000000001,KEYFORMAT=\"identity\",KEYFORMATVERSIONS=\"1\"\n" +
	"#EXT-X-PROGRAM-DATE-TIME:2010-01-01T01:01:01Z\n#EXT-X-BITRATE:1000\n#EXTINF:1.00000,title\n#EXT-X-BYTERANGE:100000@0\ns0_seg0.ts\n" +
	"#EXT-X-DISCONTINUITY\n#EXT-X-KEY:METHOD=NONE\n#EXTINF:1,\n#EXT-X-BYTERANGE:100000\ns0_seg0.ts\n#EXT-X-ENDLIST\n"

const vodMP4Base = "#EXTM3U\n#EXT-X-VERSION:7\n#EXT-X-TARGETDURATION:2\n#EXT-X-MEDIA-SEQUENCE:0\n#EXT-X-PLAYLIST-TYPE:VOD\n" +
	"#EXT-X-MAP:URI=\"s0_init.mp4\",BYTERANGE=\"100000@0\"\n" +
	"#EXT-X-KEY:METHOD=SAMPLE-AES,URI=\"skd://key\",KEYFORMAT=\"com.apple.streamingkeydelivery\",KEYFORMATVERSIONS=\"1\"\n" +
	"#EXT-X-PROGRAM-DATE-TIME:2010-01-01T01:01:01.000Z\n#EXTINF:1.00000,\n#EXT-X-BYTERANGE:100000@0\ns0_seg0.mp4\n" +
	"#EXT-X-GAP\n#EXTINF:1.00000,no desc\n#EXT-X-BYTERANGE:100000\ns0_seg0.mp4\n#EXT-X-ENDLIST\n"

const llMP4Base = "#EXTM3U\n#EXT-X-VERSION:9\n#EXT-X-TARGETDURATION:2\n" +
	"#EXT-X-SERVER-CONTROL:CAN-BLOCK-RELOAD=YES,PART-HOLD-BACK=1.0,CAN-SKIP-UNTIL=12.0\n#EXT-X-PART-INF:PART-TARGET=0.5\n" +
	"#EXT-X-MEDIA-SEQUENCE:5\n#EXT-X-SKIP:SKIPPED-SEGMENTS=0\n#EXT-X-MAP:URI=\"s0_init.mp4\",BYTERANGE=\"100000@0\"\n" +
	"#EXT-X-PROGRAM-DATE-TIME:2010-01-01T01:01:01.000Z\n" +
	"#EXT-X-PART:DURATION=0.5,URI=\"s0_seg0.mp4\",INDEPENDENT=YES,BYTERANGE=\"100000@0\"\n#EXT-X-PART:DURATION=0.5,URI=\"s0_seg0.mp4\",BYTERANGE=100000\n" +
	"#EXTINF:1.00000,\ns0_seg0.mp4\n" +
	"#EXT-X-PART:DURATION=0.5,URI=\"s0_seg0.mp4\",INDEPENDENT=YES\n#EXT-X-PART:DURATION=0.5,URI=\"s0_seg0.mp4\"\n#EXTINF:1,\ns0_seg0.mp4\n" +
	"#EXT-X-PART:DURATION=0.5,URI=\"s0_seg0.mp4\",GAP=YES\n" +
	"#EXT-X-PRELOAD-HINT:TYPE=PART,URI=\"s0_seg0.mp4\",BYTERANGE-START=0,BYTERANGE-LENGTH=100000\n"

const multiBase = "#EXTM3U\n#EXT-X-VERSION:7\n#EXT-X-INDEPENDENT-SEGMENTS\n#EXT-X-START:TIME-OFFSET=1.5\n" +
	"#EXT-X-MEDIA:TYPE=AUDIO,GROUP-ID=\"aud\",LANGUAGE=\"en\",NAME=\"a0\",DEFAULT=YES,AUTOSELECT=YES,FORCED=NO,CHANNELS=\"2\",URI=\"s0.m3u8\"\n" +
	"#EXT-X-MEDIA:TYPE=CLOSED-CAPTIONS,GROUP-ID=\"cc\",NAME=\"cc1\",INSTREAM-ID=\"CC1\"\n" +
	"#EXT-X-STREAM-INF:BANDWIDTH=1000000,AVERAGE-BANDWIDTH=900000,CODECS=\"avc1.640028,mp4a.40.2\",RESOLUTION=1920x1080,FRAME-RATE=30.000,AUDIO=\"aud\",CLOSED-CAPTIONS=\"cc\"\ns0.m3u8\n" +
	"#EXT-X-STREAM-INF:BANDWIDTH=1000,CODECS=\"avc1.42c028\",VIDEO=\"v\",SUBTITLES=\"subs\"\ns0.m3u8\n"

var basePlaylists = []string{vodTSBase, vodMP4Base, llMP4Base, multiBase}

// splitAttrs splits an attribute list at the commas that are outside quotes.
func splitAttrs(v string) []string {
	var out []string
	inQ, from := false, 0
	for i := 0; i < len(v); i++ {
		switch {
		case v[i] == '"':
			inQ = !inQ
		case v[i] == ',' && !inQ:
			out = append(out, v[from:i])
			from = i + 1
		}
	}
	return append(out, v[from:])
}

var lineMutKinds = []string{"cut-from-comma", "drop-value", "drop-colon", "tag-only", "delete-attribute", "drop-closing-quote",
	"drop-both-quotes", "truncate", "duplicate", "absurd-number", "delete-next-line", "empty-attribute-value", "drop-equals"}

var absurdNumbers = []string{"9223372036854775808", "9223372036854775807", "18446744073709551615", "18446744073709551616",
	"4611686018427387904", "2147483648", "4294967296", "0", "-1", "1e400", "99999999999999999999999999"}

var digitsRe = regexp.MustCompile(`[0-9]+(\.[0-9]+)?`)

// mutateTagLine applies one line-level mutation of the given kind to lines[i] (a tag line). Kinds that do not
// apply to the line (no comma, no attribute, no quote, no number) fall back to a simpler one.
func mutateTagLine(f *rng.R, lines []string, i int, kind string) []string {
	out := append([]string{}, lines...)
	l := lines[i]
	colon := strings.IndexByte(l, ':')
	tag, val := l, ""
	if colon >= 0 {
		tag, val = l[:colon], l[colon+1:]
	}
	pickAttr := func(pred func(string) bool) (attrs []string, k int) {
		attrs = splitAttrs(val)
		var ok []int
		for j, a := range attrs {
			if pred(a) {
				ok = append(ok, j)
			}
		}
		if len(ok) == 0 {
			return attrs, -1
		}
		return attrs, ok[f.Intn(len(ok))]
	}
	quoted := func(a string) bool { return strings.Count(a, "\"") >= 2 }
	switch kind {
	case "cut-from-comma": // #EXTINF:<duration> without the comma; an attribute list cut after its first attribute
		if c := strings.IndexByte(l, ','); c >= 0 {
			out[i] = l[:c]
			return out
		}
		return mutateTagLine(f, lines, i, "drop-value")
	case "drop-value":
		out[i] = tag + ":"
	case "drop-colon":
		out[i] = tag + val
	case "tag-only":
		out[i] = tag
	case "delete-attribute":
		attrs := splitAttrs(val)
		if colon < 0 || len(attrs) < 2 {
			return mutateTagLine(f, lines, i, "drop-value")
		}
		k := f.Intn(len(attrs))
		attrs = append(attrs[:k:k], attrs[k+1:]...)
		out[i] = tag + ":" + strings.Join(attrs, ",")
	case "drop-closing-quote", "drop-both-quotes":
		attrs, k := pickAttr(quoted)
		if k < 0 {
			return mutateTagLine(f, lines, i, "truncate")
		}
		a := attrs[k]
		last := strings.LastIndexByte(a, '"')
		a = a[:last] + a[last+1:]
		if kind == "drop-both-quotes" {
			a = strings.Replace(a, "\"", "", 1)
		}
		attrs[k] = a
		out[i] = tag + ":" + strings.Join(attrs, ",")
	case "truncate":
		if len(l) > 1 {
			out[i] = l[:1+f.Intn(len(l)-1)]
		}
	case "duplicate":
		out = append(out[:i+1:i+1], append([]string{l}, lines[i+1:]...)...)
	case "absurd-number":
		locs := digitsRe.FindAllStringIndex(val, -1)
		if len(locs) == 0 {
			return mutateTagLine(f, lines, i, "drop-value")
		}
		lc := locs[f.Intn(len(locs))]
		out[i] = tag + ":" + val[:lc[0]] + absurdNumbers[f.Intn(len(absurdNumbers))] + val[lc[1]:]
	case "delete-next-line": // the URI line of an EXTINF / EXT-X-STREAM-INF, or whatever follows
		if i+1 < len(lines) {
			out = append(out[:i+1:i+1], lines[i+2:]...)
		} else {
			return mutateTagLine(f, lines, i, "truncate")
		}
	case "empty-attribute-value", "drop-equals":
		attrs, k := pickAttr(func(a string) bool { return strings.Contains(a, "=") })
		if k < 0 {
			return mutateTagLine(f, lines, i, "drop-value")
		}
		e := strings.IndexByte(attrs[k], '=')
		if kind == "drop-equals" {
			attrs[k] = attrs[k][:e] + attrs[k][e+1:]
		} else {
			attrs[k] = attrs[k][:e+1]
		}
		out[i] = tag + ":" + strings.Join(attrs, ",")
	default:
		panic("unknown line mutation " + kind)
	}
	return out
}

var extinfNoCommaRe = regexp.MustCompile(`(?m)^#EXTINF:[0-9]+(\.[0-9]+)?\r?$`)

type lineMutated struct {
	body  []byte
	fault string
}

// lineMutations: n playlists with one (sometimes two or three) mutated tag lines, from a generator of their own.
// Three out of four start from a valid base playlist, the others from a corpus body. One in five cuts an EXTINF
// line at its comma. The first ones are fixed: every base playlist with its first and with its last EXTINF cut.
func lineMutations(f *rng.R, bodies [][]byte, n int) []lineMutated {
	var out []lineMutated
	tagLines := func(lines []string, prefix string) []int {
		var idx []int
		for i, l := range lines {
			if strings.HasPrefix(l, prefix) {
				idx = append(idx, i)
			}
		}
		return idx
	}
	for _, b := range basePlaylists {
		lines := strings.Split(b, "\n")
		idx := tagLines(lines, "#EXTINF:")
		if len(idx) == 0 {
			continue
		}
		for _, i := range []int{idx[0], idx[len(idx)-1]} {
			out = append(out, lineMutated{[]byte(strings.Join(mutateTagLine(f, lines, i, "cut-from-comma"), "\n")), "line:cut-from-comma:#EXTINF"})
		}
	}
	for k := 0; k < n; k++ {
		var src string
		if len(bodies) == 0 || f.Bool(3, 4) {
			src = basePlaylists[f.Intn(len(basePlaylists))]
		} else {
			src = string(bodies[f.Intn(len(bodies))])
		}
		lines := strings.Split(src, "\n")
		name := ""
		for m, nm := 0, 1+f.Pick(8, 2, 1); m < nm; m++ {
			prefix, kind := "#EXT", lineMutKinds[f.Intn(len(lineMutKinds))]
			if m == 0 && f.Bool(1, 5) {
				prefix, kind = "#EXTINF:", "cut-from-comma"
			}
			idx := tagLines(lines, prefix)
			if len(idx) == 0 {
				idx = tagLines(lines, "#")
			}
			if len(idx) == 0 {
				break
			}
			i := idx[f.Intn(len(idx))]
			if name == "" {
				tag := lines[i]
				if c := strings.IndexAny(tag, ":,= "); c >= 0 {
					tag = tag[:c]
				}
				if len(tag) > 30 {
					tag = tag[:30]
				}
				name = "line:" + kind + ":" + tag
			}
			lines = mutateTagLine(f, lines, i, kind)
		}
		if name == "" {
			name = "line:none"
		}
		out = append(out, lineMutated{[]byte(strings.Join(lines, "\n")), name})
	}
	return out
}

// corpusRecipes: every corpus body (and a few mutations of it) at every playlist position:
// primary; stream playlist behind a valid multivariant playlist; reload of a live MPEG-TS
// playlist; reload of a low-latency playlist.
// Then (added later: their generator is a fork, so that the bodies above stay what they were for a seed) the
// valid base playlists and lineMuts grammar-aware line-level mutations (see lineMutations), at every position too.
func corpusRecipes(bodies [][]byte, r *rng.R, mutations int, lineMuts int) []*Recipe {
	var out []*Recipe
	var all [][]byte
	all = append(all, bodies...)
	fLines := r.Fork(0x11E5)
	for k := 0; k < mutations && len(bodies) > 0; k++ {
		b := append([]byte{}, bodies[r.Intn(len(bodies))]...)
		switch r.Intn(5) {
		case 0:
			if len(b) > 0 {
				b = b[:r.Intn(len(b))]
			}
		case 1:
			b = append(b, bodies[r.Intn(len(bodies))]...)
		case 2:
			if len(b) > 0 {
				b[r.Intn(len(b))] = byte(r.Intn(256))
			}
		case 3:
			lines := strings.Split(string(b), "\n")
			if len(lines) > 1 {
				i, j := r.Intn(len(lines)), r.Intn(len(lines))
				lines[i], lines[j] = lines[j], lines[i]
			}
			b = []byte(strings.Join(lines, "\n"))
		default:
			b = append([]byte("#EXTM3U\n#EXT-X-TARGETDURATION:1\n#EXTINF:1,\nx.ts\n"), b...)
		}
		all = append(all, b)
	}
	tsStream := func() StreamR {
		return StreamR{Container: "mpegts", Tracks: []TrackR{{Codec: "h264"}},
			Segments: []SegR{{Events: []TSEventR{{Track: 0, PTS: 1000, DTS: 1000}, {Track: 0, PTS: 1900, DTS: 1900}}}}}
	}
	mp4Stream := func() StreamR {
		return StreamR{Container: "fmp4", Tracks: []TrackR{{ID: 1, TimeScale: 90000, Codec: "h264"}},
			Segments: []SegR{{Parts: []PartR{{Tracks: []PartTrackR{{ID: 1, Samples: []SampleR{{Dur: 900}}}}}}}}}
	}
	for _, b := range all {
		// primary
		out = append(out, &Recipe{Kind: "playlist-corpus", CloseAt: -1, RawPrimary: b, Streams: []StreamR{tsStream()}, Faults: []string{"corpus:primary"}})
		// stream playlist behind a multivariant
		s := tsStream()
		s.RawPlaylist = b
		out = append(out, &Recipe{Kind: "playlist-corpus", CloseAt: -1, Multivariant: true,
			Variants: []VariantR{{Codecs: "avc1.640028", Bandwidth: 1000, Stream: 0}}, Streams: []StreamR{s}, Faults: []string{"corpus:stream"}})
		// reload positions are built in buildCorpusReload (two bodies for one path)
		out = append(out, &Recipe{Kind: "playlist-corpus", CloseAt: -1, RawPrimary: b, Streams: []StreamR{tsStream()}, Faults: []string{"corpus:reload-live"}})
		out = append(out, &Recipe{Kind: "playlist-corpus", CloseAt: -1, RawPrimary: b, Streams: []StreamR{mp4Stream()}, Faults: []string{"corpus:reload-ll"}})
	}
	// the additional loop: base playlists as they are, then the line-level mutations
	var more []lineMutated
	for _, b := range basePlaylists {
		more = append(more, lineMutated{[]byte(b), "line:base-playlist"})
	}
	more = append(more, lineMutations(fLines, bodies, lineMuts)...)
	for _, m := range more {
		b := m.body
		// the media resources the playlist names: fMP4 ones if it mentions any, else MPEG-TS
		stream := tsStream
		if bytes.Contains(b, []byte(".mp4")) {
			stream = mp4Stream
		}
		var tags []string
		if extinfNoCommaRe.Match(b) {
			tags = []string{"playlist:EXTINF-without-comma"}
		}
		out = append(out, &Recipe{Kind: "playlist-corpus", CloseAt: -1, RawPrimary: b, Streams: []StreamR{stream()}, Tags: tags, Faults: []string{"corpus:primary", m.fault}})
		s := stream()
		s.RawPlaylist = b
		out = append(out, &Recipe{Kind: "playlist-corpus", CloseAt: -1, Multivariant: true, Tags: tags,
			Variants: []VariantR{{Codecs: "avc1.640028", Bandwidth: 1000, Stream: 0}}, Streams: []StreamR{s}, Faults: []string{"corpus:stream", m.fault}})
		out = append(out, &Recipe{Kind: "playlist-corpus", CloseAt: -1, RawPrimary: b, Streams: []StreamR{tsStream()}, Tags: tags, Faults: []string{"corpus:reload-live", m.fault}})
		out = append(out, &Recipe{Kind: "playlist-corpus", CloseAt: -1, RawPrimary: b, Streams: []StreamR{mp4Stream()}, Tags: tags, Faults: []string{"corpus:reload-ll", m.fault}})
	}
	return out
}

// reload positions: the primary path answers first with a valid live playlist, then with the corpus body
func patchCorpusReload(r *Recipe, b *built) {
	if r.Kind != "playlist-corpus" || len(r.Faults) == 0 {
		return
	}
	switch r.Faults[0] {
	case "corpus:reload-live":
		b.Job.Resources["/index.m3u8"].Bodies = [][]byte{[]byte(liveTSPlaylist), r.RawPrimary}
	case "corpus:reload-ll":
		b.Job.Resources["/index.m3u8"].Bodies = [][]byte{[]byte(llPlaylist), r.RawPrimary}
	}
}

// ---------- main ----------

func nontrivial(r *Recipe, rr *runResult) bool {
	if r.Kind == "playlist-corpus" {
		return false
	}
	nreq := 0
	if rr.Child != nil {
		nreq = len(rr.Child.Requests)
	}
	return len(r.Faults) >= 1 && (nreq >= 2 || rr.Class == "panic")
}

func main() {
	child := flag.String("child", "", "run as the child process on this job file")
	seed := flag.Uint64("seed", 0, "seed")
	tier := flag.String("tier", "quick", "quick|thorough")
	out := flag.String("out", "", "output directory")
	replay := flag.String("replay", "", "replay file (JSON with .input = a recipe)")
	regress := flag.String("regress", "", "directory of regression recipes (JSON files with .input = a recipe), run first")
	n := flag.Int("n", 0, "number of generated content recipes (0 = tier default)")
	workers := flag.Int("workers", 12, "parallel children")
	repo := flag.String("repo", "/repo", "repository (for the fuzz corpora)")
	repairs := flag.String("repairs", "", "self-tests on scratch copies only: the proposed repairs the scratch tree contains (tracks,join)")
	flag.Parse()
	if *child != "" {
		runChild(*child)
		return
	}
	if *out == "" {
		fmt.Fprintln(os.Stderr, "need -out")
		os.Exit(2)
	}
	os.MkdirAll(*out, 0o755)
	self, err := os.Executable()
	if err != nil {
		panic(err)
	}
	rn := &runner{self: self, dir: *out, quickDL: 6000}

	count := *n
	if count == 0 {
		count = 1200
		if *tier == "thorough" {
			count = 20000
		}
	}

	var recipes []*Recipe
	if *replay != "" {
		raw, err := os.ReadFile(*replay)
		if err != nil {
			panic(err)
		}
		var rp struct {
			Input *Recipe `json:"input"`
		}
		if err := json.Unmarshal(raw, &rp); err != nil || rp.Input == nil {
			fmt.Fprintln(os.Stderr, "replay file has no .input recipe")
			os.Exit(2)
		}
		recipes = []*Recipe{rp.Input}
	} else {
		// regression recipes (corpus/C13): inputs of earlier violations, run before everything else
		if *regress != "" {
			files, _ := filepath.Glob(filepath.Join(*regress, "*.json"))
			sort.Strings(files)
			for _, f := range files {
				raw, err := os.ReadFile(f)
				var rp struct {
					Input *Recipe `json:"input"`
				}
				if err != nil || json.Unmarshal(raw, &rp) != nil || rp.Input == nil {
					fmt.Fprintln(os.Stderr, "regression file has no .input recipe:", f)
					os.Exit(2)
				}
				recipes = append(recipes, rp.Input)
			}
		}
		recipes = append(recipes, boundaryRecipes()...)
		for i := 0; i < count; i++ {
			recipes = append(recipes, genRecipe(rng.New(*seed, uint64(i))))
		}
		muts, lineMuts := 30, 60
		if *tier == "thorough" {
			muts, lineMuts = 1500, 800
		}
		recipes = append(recipes, corpusRecipes(readCorpus(*repo), rng.New(*seed, 1<<40), muts, lineMuts)...)
		// added later, after everything else, so that the recipes above keep their numbers: content recipes
		// with one absurd byte range each: the boundary set, and a tenth as many generated ones as content recipes
		recipes = append(recipes, absurdRangeBoundaryRecipes()...)
		for i := 0; i < (count+9)/10; i++ {
			recipes = append(recipes, genAbsurdRangeRecipe(rng.New(*seed, 1<<41+uint64(i))))
		}
	}

	// run everything in parallel
	results := make([]done, len(recipes))
	var wg sync.WaitGroup
	sem := make(chan struct{}, *workers)
	for i := range recipes {
		wg.Add(1)
		sem <- struct{}{}
		go func(i int) {
			defer wg.Done()
			defer func() { <-sem }()
			r := recipes[i]
			d := done{id: i, recipe: r}
			b, err := buildRecipe(r)
			if err != nil {
				d.err = err.Error()
				results[i] = d
				return
			}
			patchCorpusReload(r, b)
			d.lit, d.refused = b.LitRange, b.Refused
			b.Job.DeadlineMS = rn.quickDL
			b.Job.CloseDeadlineMS = rn.quickDL
			if r.Kind == "playlist-corpus" {
				b.Job.DeadlineMS = 3000
			}
			if r.Kind != "playlist-corpus" {
				d.abs = abstractRecipe(r, b)
			}
			jp := filepath.Join(*out, fmt.Sprintf("job_%d.json", i))
			jb, _ := json.Marshal(b.Job)
			os.WriteFile(jp, jb, 0o644)
			d.rr = runJob(self, jp, &b.Job)
			if d.rr.Class == "hang" || d.rr.Class == "busy" || d.rr.Class == "stall" {
				// a watchdog verdict must reproduce: 3 hangs out of 3
				again := 1
				for k := 0; k < 2; k++ {
					x := runJob(self, jp, &b.Job)
					if x.Class == d.rr.Class {
						again++
					}
				}
				if again < 3 {
					d.rr.Class = "flaky-" + d.rr.Class
				}
			}
			os.Remove(jp)
			results[i] = d
		}(i)
	}
	wg.Wait()

	// verdicts
	var failures []failure
	var infra []string
	var cases []caseRec
	dist := map[string]int{}
	seen := map[string]bool{}
	distinctNontrivial := 0
	var samples []json.RawMessage
	minimised := map[string]bool{}
	promiseBroken := map[string]bool{}

	var shard *os.File
	shardIdx, inShard := -1, 0
	shardSize := 150
	closeShard := func() {
		if shard != nil {
			fmt.Fprintln(shard, "].")
			if *repairs == "" {
				fmt.Fprintln(shard, "Definition M := Eval vm_compute in mismatches cases.")
			} else {
				fmt.Fprintf(shard, "Definition M := Eval vm_compute in mismatches_for {| rep_tracks := %s; rep_join := %s |} cases.\n",
					coqfmt.Bool(strings.Contains(*repairs, "tracks")), coqfmt.Bool(strings.Contains(*repairs, "join")))
			}
			fmt.Fprintln(shard, "Print M.")
			shard.Close()
			shard = nil
		}
	}

	for i := range results {
		d := &results[i]
		r := d.recipe
		if d.err != "" {
			infra = append(infra, fmt.Sprintf("recipe %d: %s", i, d.err))
			continue
		}
		rj, _ := json.Marshal(r)
		h := sha256.Sum256(rj)
		hs := hex.EncodeToString(h[:8])
		dist["kind:"+r.Kind]++
		dist["class:"+d.rr.Class]++
		for _, f := range r.Faults {
			name := f
			if k := strings.Index(name, ":"); k > 0 && !strings.HasPrefix(name, "corpus") {
				// group by the first two components
				parts := strings.Split(name, ":")
				if len(parts) > 2 {
					name = strings.Join(parts[:2], ":")
				}
			}
			dist["fault:"+name]++
		}
		if len(r.Faults) == 0 {
			dist["fault:none"]++
		}
		for _, tg := range r.Tags {
			if strings.HasPrefix(tg, "byte-range:") && !strings.Contains(tg, "=") && !strings.Contains(tg, ",") && !strings.Contains(tg, "@") && tg != "byte-range:full" {
				dist["tag:"+tg]++
			} else if strings.HasPrefix(tg, "byte-range:") {
				dist["tag:byte-range:boundary"]++
			} else {
				dist["tag:"+tg]++
			}
		}
		if d.rr.Child != nil {
			dist[fmt.Sprintf("requests:%d", min(len(d.rr.Child.Requests), 12))]++
			if d.rr.Class == "err" {
				w := d.rr.Child.WaitErr
				if len(w) > 60 {
					w = w[:60]
				}
				dist["wait_err:"+w]++
			}
			if d.rr.Child.DecodeErrors > 0 {
				dist["decode_errors>0"]++
			}
		}
		if d.abs != nil {
			for si := range d.abs.Streams {
				if p := d.abs.Streams[si].ParserPromiseBroken; p != "" && !promiseBroken[p] {
					promiseBroken[p] = true
					failures = append(failures, failure{Signature: "C13:assumption:mediacommon:" + strings.ReplaceAll(p, " ", "-"),
						What:  "a parser guarantee the model assumes (mc_wf) does not hold: " + p,
						Input: rj})
				}
			}
		}

		switch d.rr.Class {
		case "infra":
			infra = append(infra, fmt.Sprintf("recipe %d: %s", i, d.rr.PanicMsg))
			continue
		case "panic":
			sig0 := signature(r, &d.rr)
			if !minimised[sig0] {
				minimised[sig0] = true
				mr, mrr := r, d.rr
				if *replay == "" {
					mr, mrr = rn.minimise(r, d.rr)
				}
				sig := signature(mr, &mrr)
				mj, _ := json.Marshal(mr)
				if minimised["final:"+sig] {
					break
				}
				minimised["final:"+sig] = true
				failures = append(failures, failure{Signature: sig,
					What: fmt.Sprintf("the client panicked (child exit status %d): %s; top of the trace: %s | faults injected: %v",
						mrr.Exit, mrr.PanicMsg, strings.Join(firstN(mrr.Frames, 4), " <- "), r.Faults),
					Input: mj})
				os.WriteFile(filepath.Join(*out, "panic_"+strings.ReplaceAll(sig, ":", "_")+".txt"), []byte(mrr.Trace+"\n"), 0o644)
			}
		case "hang", "busy":
			sig := signature(r, &d.rr)
			if minimised["final:"+sig] {
				break
			}
			minimised["final:"+sig] = true
			var where []string
			seenF := map[string]bool{}
			for _, l := range strings.Split(d.rr.Trace, "\n") {
				if k := strings.Index(l, "gohlslib/v2."); k >= 0 && !strings.Contains(l, "clientRoutinePool") {
					f := strings.TrimSpace(l[k+len("gohlslib/v2."):])
					if k2 := strings.Index(f, "+0x"); k2 > 0 {
						f = f[:k2]
					}
					if !seenF[f] && len(where) < 8 {
						seenF[f] = true
						where = append(where, f)
					}
				}
			}
			failures = append(failures, failure{Signature: sig,
				What: fmt.Sprintf("the client did not finish within %d ms after Close() (class %s, 3 out of 3 runs); goroutines are in: %s",
					rn.quickDL, d.rr.Class, strings.Join(where, " | ")),
				Input: rj})
		case "stall":
			sig := signature(r, &d.rr)
			if minimised["final:"+sig] {
				break
			}
			minimised["final:"+sig] = true
			failures = append(failures, failure{Signature: sig,
				What: fmt.Sprintf("the client is wedged: the whole VOD stream was served, no goroutine is downloading or waiting for a sample's time, "+
					"yet Wait() returned neither EOS nor an error within %d ms (3 out of 3 runs; it ended only when the harness called Close()); goroutines are parked in: %s",
					rn.quickDL, strings.Join(d.rr.Child.BlockedIn, " | ")),
				Input: rj})
		case "flaky-hang", "flaky-busy", "flaky-stall":
			// not reproduced 3 times: reported in the distribution only
		case "closed":
			if d.rr.Child != nil && d.rr.Child.AfterCloseMS > 4000 {
				dist["close:slow(>4s)"]++
			}
			if d.lit && d.rr.Child != nil && d.rr.Child.NeededClose {
				// absurd byte ranges (oracle leg): a VOD stream whose playlist declares an absurd range must still end
				// by itself, with an error or after playing what the server returned
				sig := signature(r, &d.rr) + ":no-end-without-close"
				if !minimised["final:"+sig] {
					minimised["final:"+sig] = true
					failures = append(failures, failure{Signature: sig,
						What: fmt.Sprintf("a VOD stream listed with an absurd byte range neither played to the end nor ended with an error within %d ms: "+
							"Wait() returned (%s) only after the harness called Close(); goroutines were in: %s",
							rn.quickDL, d.rr.Child.WaitErr, strings.Join(d.rr.Child.BlockedIn, " | ")),
						Input: rj})
				}
			}
			if d.rr.Child != nil && d.rr.Child.NeededClose {
				dist["closed:needed-close:"+r.Kind]++
				fmt.Fprintf(os.Stderr, "needed close: %s\n", rj)
			} else {
				dist["closed:by-plan"]++
			}
		}

		// the model comparison: content recipes with at most one fault, no planned Close,
		// a primary playlist that parses
		if d.lit {
			dist["absurd-byte-range:"+map[bool]string{true: "refused-by-server(oracle-only)", false: "served"}[d.refused]]++
		}
		compare := r.Kind == "content" && !d.refused && r.CloseAt < 0 && r.CloseAfterDataMS == 0 && d.abs != nil && d.abs.PrimaryErr == "" &&
			(d.rr.Class == "eos" || d.rr.Class == "err" || d.rr.Class == "panic" || d.rr.Class == "stall")
		if compare {
			if shard == nil || inShard >= shardSize {
				closeShard()
				shardIdx++
				inShard = 0
				shard, err = os.Create(filepath.Join(*out, fmt.Sprintf("cases_%d.v", shardIdx)))
				if err != nil {
					panic(err)
				}
				fmt.Fprintln(shard, "From Coq Require Import List ZArith String.")
				fmt.Fprintln(shard, "From GoHls Require Import Model.ClientContent Tie.ClientContentTie.")
				fmt.Fprintln(shard, "Import ListNotations. Open Scope Z_scope.")
				fmt.Fprintln(shard, "Definition cases : list ccase := [")
			}
			if inShard > 0 {
				fmt.Fprintln(shard, ";")
			}
			ends := endClasses(&d.rr, d.abs)
			var counts []string
			nerr := 0
			if d.rr.Child != nil {
				for _, c := range d.rr.Child.Delivered {
					counts = append(counts, coqfmt.Nat(c))
				}
				nerr = d.rr.Child.DecodeErrors
			}
			fmt.Fprintf(shard, "(* %d %s %v *)\nCASE (%s)\n     %s %s %s %s",
				i, hs, r.Faults, d.abs.coqScenario(r.OnTracksErr),
				coqTracks(d.rr.TracksCalled, d.rr.Tracks), coqfmt.List(ends), coqfmt.List(counts), coqfmt.Nat(nerr))
			cases = append(cases, caseRec{ID: i, Shard: shardIdx, Index: inShard, Hash: hs, Faults: r.Faults, Class: d.rr.Class, Ends: ends, Recipe: r})
			inShard++
			dist["compared"]++
		}

		if !seen[hs] {
			seen[hs] = true
			if nontrivial(r, &d.rr) {
				distinctNontrivial++
				if len(samples) < 3 {
					samples = append(samples, rj)
				}
			}
		}
	}
	closeShard()

	// second model-compared stream: playlist index expressions on the real functions
	var pcases []pcaseRec
	if *replay == "" {
		np := 600
		if *tier == "thorough" {
			np = 12000
		}
		terms, obs := playlistUseCases(*seed, np)
		for from := 0; from < len(terms); from += 600 {
			to := from + 600
			if to > len(terms) {
				to = len(terms)
			}
			shardIdx++
			if err := writePCaseShard(filepath.Join(*out, fmt.Sprintf("cases_%d.v", shardIdx)), terms[from:to], obs[from:to]); err != nil {
				panic(err)
			}
			for k := from; k < to; k++ {
				pcases = append(pcases, pcaseRec{Shard: shardIdx, Index: k - from, Call: terms[k], Obs: obs[k]})
				dist["playlist-call:"+strings.SplitN(terms[k], " ", 2)[0]]++
				if obs[k] == "PPanic" {
					dist["playlist-call:panicked(nil element or index)"]++
				}
			}
		}
	}

	if len(samples) == 0 && len(recipes) > 0 {
		j, _ := json.Marshal(recipes[0])
		samples = append(samples, j)
	}
	res := map[string]interface{}{
		"evaluations":         len(recipes) + len(pcases),
		"distinct_nontrivial": distinctNontrivial,
		"rule": "recipes from splitmix64(seed, index): a valid fMP4 or MPEG-TS stream (media or multivariant primary, 0-2 audio renditions) " +
			"with 0..n structure-aware deviations (unsupported codecs, time scale 0, track-id permutations / unknown / duplicate ids, missing tracks, " +
			">10 tracks, empty trun / moof / segment, box-level truncation / drop / rename / duplication of init and segments, absurd durations and base times, " +
			"undecodable payloads, MPEG-TS stream types nobody supports, PES without PTS, packet-level truncation, mixed containers, OnTracks error, Close at a request position) " +
			"plus every fuzz-corpus playlist (and byte-level mutations of them) at every playlist position; plus valid playlists carrying every tag the decoder reads " +
			"and grammar-aware line-level mutations of their tag lines (cut at the first comma - #EXTINF:<duration> without comma several times per run -, value / colon / " +
			"attribute / quote / '=' dropped, truncated, duplicated, following line deleted, absurd numbers) from a forked generator; plus absurd byte ranges " +
			"(EXT-X-BYTERANGE and EXT-X-MAP BYTERANGE with lengths 0, 2^62, 2^63-1, 2^63, 2^64-1 and offsets that make offset + length wrap around 2^64): " +
			"model-compared when the stub serves bytes, oracle-only (no crash, no hang, ends by itself) when it answers 416; distinct by SHA-256 of the recipe; non-trivial = a content recipe with >= 1 deviation " +
			"whose child fetched at least one media resource (or panicked)",
		"samples":                       samples,
		"distribution":                  dist,
		"oracle_failures":               failures,
		"infra_errors":                  infra,
		"cases":                         cases,
		"pcases":                        pcases,
		"shards":                        shardIdx + 1,
		"traces_validated_against_impl": len(recipes),
	}
	j, _ := json.MarshalIndent(res, "", " ")
	os.WriteFile(filepath.Join(*out, "result.json"), j, 0o644)
	fmt.Printf("clientcontent harness: %d streams, %d distinct non-trivial, %d compared with the model, %d oracle failures, %d infra errors, %d shards\n",
		len(recipes), distinctNontrivial, dist["compared"], len(failures), len(infra), shardIdx+1)
}

func firstN(l []string, n int) []string {
	if len(l) > n {
		return l[:n]
	}
	return l
}

func writeFile(path, content string) error { return os.WriteFile(path, []byte(content), 0o644) }

func recipeHasManyPartTracks(r *Recipe) bool {
	for _, s := range r.Streams {
		if s.Container != "fmp4" {
			continue
		}
		for _, g := range s.Segments {
			n := 0
			for _, p := range g.Parts {
				n += len(p.Tracks)
			}
			if n > 10 {
				return true
			}
		}
	}
	return false
}

func recipeHasLiteralRange(r *Recipe) bool {
	for _, s := range r.Streams {
		if strings.HasPrefix(s.MapRange, "lit:") {
			return true
		}
		for _, g := range s.Segments {
			if strings.HasPrefix(g.Range, "lit:") {
				return true
			}
		}
	}
	return false
}

func recipeHasRangeWithoutOffset(r *Recipe) bool {
	noOff := func(spec string) bool { return spec != "" && !strings.Contains(spec, "@") }
	for _, s := range r.Streams {
		if noOff(s.MapRange) {
			return true
		}
		for _, g := range s.Segments {
			if noOff(g.Range) {
				return true
			}
		}
	}
	return false
}
