package main

// The abstraction: what mediacommon's parsers (the same entry points the client calls) and
// the repo's playlist.Unmarshal make of the bytes the stub server returns. This parsed
// description is the model's input; it is printed as a Coq term (Tie/ClientContentTie.v
// constructors).

import (
	"bytes"
	"errors"
	"fmt"
	"io"
	"net/url"
	"strconv"
	"strings"

	"github.com/asticode/go-astits"
	"github.com/bluenviron/gohlslib/v2/pkg/playlist"
	"github.com/bluenviron/mediacommon/v2/pkg/formats/fmp4"
	"github.com/bluenviron/mediacommon/v2/pkg/formats/mpegts"

	"verifharness/internal/coqfmt"
)

type absInitTrack struct {
	ID        int
	TimeScale uint32
	Codec     string // Coq fcodec constructor
}

type absSample struct {
	Dur    uint32
	PTSOff int32
	OkAV1  bool
	OkAVCC bool
}

type absPartTrack struct {
	ID      int
	Base    uint64
	Samples []absSample
}

type absFSeg struct {
	DateTime bool
	Parts    [][]absPartTrack // nil + Bad: Unmarshal error
	Bad      bool
	Err      string
}

type absRead struct {
	Kind string // data none fatal nomore
	NErr int
	Trk  int
	PTS  int64
	DTS  int64
}

type absTSeg struct {
	DateTime bool
	Reads    []absRead
}

type absStream struct {
	FMP4 bool
	// fMP4
	InitBad bool
	InitErr string
	Init    []absInitTrack
	FSegs   []absFSeg
	// MPEG-TS
	PMTBad   bool
	PMTErr   string
	PMT      []string // Coq tcodec constructors
	TSegs    []absTSeg
	FatalErr string
	// error texts of payload decoders seen while abstracting (for classification of Wait errors)
	DecodeErrs map[string]bool
	// mediacommon's promises about a parsed init (checked, reported as an oracle failure if broken)
	ParserPromiseBroken string
}

type abstraction struct {
	Primary string // Coq uplaylist term
	Streams []absStream
	// PrimaryErr: playlist.Unmarshal of the primary failed (such recipes are oracle-only)
	PrimaryErr string
}

func fcodecTag(c fmp4.Codec) string {
	switch c.(type) {
	case nil:
		return "FNil"
	case *fmp4.CodecAV1:
		return "FAV1"
	case *fmp4.CodecVP9:
		return "FVP9"
	case *fmp4.CodecH265:
		return "FH265"
	case *fmp4.CodecH264:
		return "FH264"
	case *fmp4.CodecOpus:
		return "FOpus"
	case *fmp4.CodecMPEG4Audio:
		return "FMPEG4Audio"
	case *fmp4.CodecMPEG4Video:
		return "FMPEG4Video"
	case *fmp4.CodecMPEG1Video:
		return "FMPEG1Video"
	case *fmp4.CodecMJPEG:
		return "FMJPEG"
	case *fmp4.CodecMPEG1Audio:
		return "FMPEG1Audio"
	case *fmp4.CodecAC3:
		return "FAC3"
	case *fmp4.CodecLPCM:
		return "FLPCM"
	}
	panic(fmt.Sprintf("fmp4 codec type %T is not in the model: extend fcodec", c))
}

func tcodecTag(c mpegts.Codec) string {
	switch c.(type) {
	case nil:
		return "TNil"
	case *mpegts.CodecH265:
		return "TH265"
	case *mpegts.CodecH264:
		return "TH264"
	case *mpegts.CodecMPEG4Video:
		return "TMPEG4Video"
	case *mpegts.CodecMPEG1Video:
		return "TMPEG1Video"
	case *mpegts.CodecOpus:
		return "TOpus"
	case *mpegts.CodecMPEG4Audio:
		return "TMPEG4Audio"
	case *mpegts.CodecMPEG1Audio:
		return "TMPEG1Audio"
	case *mpegts.CodecAC3:
		return "TAC3"
	case *mpegts.CodecUnsupported:
		return "TUnsupported"
	}
	panic(fmt.Sprintf("mpegts codec type %T is not in the model: extend tcodec", c))
}

func abstractFMP4(initB []byte, segs [][]byte, dateTime bool) absStream {
	s := absStream{FMP4: true, DecodeErrs: map[string]bool{}}
	var init fmp4.Init
	if err := init.Unmarshal(bytes.NewReader(initB)); err != nil {
		s.InitBad = true
		s.InitErr = err.Error()
	} else {
		if len(init.Tracks) == 0 {
			s.ParserPromiseBroken = "fmp4.Init.Unmarshal succeeded with zero tracks"
		}
		for _, t := range init.Tracks {
			if t.Codec == nil {
				s.ParserPromiseBroken = "fmp4.Init.Unmarshal succeeded with a nil Codec"
			}
			s.Init = append(s.Init, absInitTrack{ID: t.ID, TimeScale: t.TimeScale, Codec: fcodecTag(t.Codec)})
		}
	}
	for i, b := range segs {
		fs := absFSeg{DateTime: dateTime && i == 0}
		var parts fmp4.Parts
		if err := parts.Unmarshal(b); err != nil {
			fs.Bad = true
			fs.Err = err.Error()
		} else {
			fs.Parts = [][]absPartTrack{}
			for _, p := range parts {
				pts := []absPartTrack{}
				for _, pt := range p.Tracks {
					a := absPartTrack{ID: pt.ID, Base: pt.BaseTime}
					for _, sm := range pt.Samples {
						_, e1 := sm.GetAV1()
						_, e2 := sm.GetH264()
						if e1 != nil {
							s.DecodeErrs[e1.Error()] = true
						}
						if e2 != nil {
							s.DecodeErrs[e2.Error()] = true
						}
						a.Samples = append(a.Samples, absSample{Dur: sm.Duration, PTSOff: sm.PTSOffset, OkAV1: e1 == nil, OkAVCC: e2 == nil})
					}
					pts = append(pts, a)
				}
				fs.Parts = append(fs.Parts, pts)
			}
		}
		s.FSegs = append(s.FSegs, fs)
	}
	return s
}

type switchable struct{ r io.Reader }

func (s *switchable) Read(p []byte) (int, error) { return s.r.Read(p) }

func abstractTS(segs [][]byte, dateTime bool) absStream {
	s := absStream{DecodeErrs: map[string]bool{}}
	for i := range segs {
		s.TSegs = append(s.TSegs, absTSeg{DateTime: dateTime && i == 0})
	}
	if len(segs) == 0 {
		return s
	}
	sw := &switchable{r: bytes.NewReader(segs[0])}
	rd := &mpegts.Reader{R: sw}
	if err := rd.Initialize(); err != nil {
		s.PMTBad = true
		s.PMTErr = err.Error()
		return s
	}
	nerr := 0
	rd.OnDecodeError(func(error) { nerr++ })
	var cur *absRead
	sup := 0
	for _, t := range rd.Tracks() {
		s.PMT = append(s.PMT, tcodecTag(t.Codec))
		switch t.Codec.(type) {
		case *mpegts.CodecH264:
			idx := sup
			sup++
			rd.OnDataH264(t, func(pts int64, dts int64, _ [][]byte) error {
				cur = &absRead{Kind: "data", Trk: idx, PTS: pts, DTS: dts}
				return nil
			})
		case *mpegts.CodecMPEG4Audio:
			idx := sup
			sup++
			rd.OnDataMPEG4Audio(t, func(pts int64, _ [][]byte) error {
				cur = &absRead{Kind: "data", Trk: idx, PTS: pts, DTS: pts}
				return nil
			})
		}
	}
	for i := range segs {
		if i > 0 {
			sw.r = bytes.NewReader(segs[i])
		}
		for n := 0; ; n++ {
			if n > 1000000 {
				panic("abstraction: mpegts.Reader.Read does not terminate")
			}
			before := nerr
			cur = nil
			err := rd.Read()
			switch {
			case err != nil && errors.Is(err, astits.ErrNoMorePackets):
				s.TSegs[i].Reads = append(s.TSegs[i].Reads, absRead{Kind: "nomore", NErr: nerr - before})
			case err != nil:
				s.TSegs[i].Reads = append(s.TSegs[i].Reads, absRead{Kind: "fatal", NErr: nerr - before})
				s.FatalErr = err.Error()
				return s
			case cur != nil:
				cur.NErr = nerr - before
				s.TSegs[i].Reads = append(s.TSegs[i].Reads, *cur)
				continue
			default:
				s.TSegs[i].Reads = append(s.TSegs[i].Reads, absRead{Kind: "none", NErr: nerr - before})
				continue
			}
			break
		}
	}
	return s
}

// ---------- primary playlist ----------

func streamOfURI(u string) int {
	// sN.m3u8 -> N; anything else names nothing that is served
	if strings.HasPrefix(u, "s") && strings.HasSuffix(u, ".m3u8") {
		if n, err := strconv.Atoi(u[1 : len(u)-5]); err == nil {
			return n
		}
	}
	return 9999
}

func coqURI(u string) string {
	_, err := url.Parse(u)
	return fmt.Sprintf("(U %s %s)", coqfmt.Bool(err == nil), coqfmt.Nat(streamOfURI(u)))
}

func coqStrList(l []string) string {
	var it []string
	for _, s := range l {
		it = append(it, coqfmt.Str(s))
	}
	return coqfmt.List(it)
}

func abstractPrimary(body []byte, nseg0 int) (string, string) {
	pl, err := playlist.Unmarshal(body)
	if err != nil {
		return "", err.Error()
	}
	switch p := pl.(type) {
	case *playlist.Media:
		return fmt.Sprintf("(MEDIA %s)", coqfmt.Nat(len(p.Segments))), ""
	case *playlist.Multivariant:
		var vs, rs []string
		for _, v := range p.Variants {
			vs = append(vs, fmt.Sprintf("VR %s %s %s %s", coqStrList(v.Codecs), coqfmt.Z(int64(v.Bandwidth)), coqURI(v.URI), coqfmt.Str(v.Audio)))
		}
		for _, r := range p.Renditions {
			u := "None"
			if r.URI != nil {
				u = "(Some " + coqURI(*r.URI) + ")"
			}
			rs = append(rs, fmt.Sprintf("RD %s %s", coqfmt.Str(r.GroupID), u))
		}
		return fmt.Sprintf("(MV %s %s)", coqfmt.List(vs), coqfmt.List(rs)), ""
	}
	return "", "unknown playlist type"
}

func abstractRecipe(r *Recipe, b *built) *abstraction {
	a := &abstraction{}
	nseg0 := 0
	if len(r.Streams) > 0 {
		nseg0 = len(r.Streams[0].Segments)
	}
	a.Primary, a.PrimaryErr = abstractPrimary(b.Job.Resources["/index.m3u8"].Bodies[0], nseg0)
	for i := range r.Streams {
		s := &r.Streams[i]
		if s.Container == "fmp4" {
			a.Streams = append(a.Streams, abstractFMP4(b.Inits[i], b.Segs[i], s.DateTime))
		} else {
			a.Streams = append(a.Streams, abstractTS(b.Segs[i], s.DateTime))
		}
	}
	return a
}

// ---------- Coq printing ----------

const testDateNS = int64(1262307661) * 1000000000 // 2010-01-01T01:01:01Z

func coqOptDate(b bool) string {
	if b {
		return "(Some " + coqfmt.Z(testDateNS) + ")"
	}
	return "None"
}

func coqU64(v uint64) string { return strconv.FormatUint(v, 10) }

func (s *absStream) coq() string {
	if s.FMP4 {
		init := "None"
		if !s.InitBad {
			var ts []string
			for _, t := range s.Init {
				ts = append(ts, fmt.Sprintf("IT %s %d %s", coqfmt.Z(int64(t.ID)), t.TimeScale, t.Codec))
			}
			init = "(Some " + coqfmt.List(ts) + ")"
		}
		var segs []string
		for _, sg := range s.FSegs {
			parts := "None"
			if !sg.Bad {
				var ps []string
				for _, p := range sg.Parts {
					var pts []string
					for _, pt := range p {
						var sms []string
						for _, sm := range pt.Samples {
							sms = append(sms, fmt.Sprintf("SM %d %s %s %s", sm.Dur, coqfmt.Z(int64(sm.PTSOff)), coqfmt.Bool(sm.OkAV1), coqfmt.Bool(sm.OkAVCC)))
						}
						pts = append(pts, fmt.Sprintf("PT %s %s %s", coqfmt.Z(int64(pt.ID)), coqU64(pt.Base), coqfmt.List(sms)))
					}
					ps = append(ps, coqfmt.List(pts))
				}
				parts = "(Some " + coqfmt.List(ps) + ")"
			}
			segs = append(segs, fmt.Sprintf("FS %s %s", coqOptDate(sg.DateTime), parts))
		}
		return fmt.Sprintf("SFm %s %s", init, coqfmt.List(segs))
	}
	pmt := "None"
	if !s.PMTBad {
		pmt = "(Some " + coqfmt.List(s.PMT) + ")"
	}
	var segs []string
	for _, sg := range s.TSegs {
		var rs []string
		for _, rd := range sg.Reads {
			switch rd.Kind {
			case "data":
				rs = append(rs, fmt.Sprintf("RData %s %s %s %s", coqfmt.Nat(rd.NErr), coqfmt.Nat(rd.Trk), coqfmt.Z(rd.PTS), coqfmt.Z(rd.DTS)))
			case "none":
				rs = append(rs, "RNone "+coqfmt.Nat(rd.NErr))
			case "fatal":
				rs = append(rs, "RFatal "+coqfmt.Nat(rd.NErr))
			case "nomore":
				rs = append(rs, "RNoMore "+coqfmt.Nat(rd.NErr))
			}
		}
		segs = append(segs, fmt.Sprintf("TS %s %s", coqOptDate(sg.DateTime), coqfmt.List(rs)))
	}
	return fmt.Sprintf("STs %s %s", pmt, coqfmt.List(segs))
}

func (a *abstraction) coqScenario(onTracksErr bool) string {
	var ss []string
	for i := range a.Streams {
		ss = append(ss, a.Streams[i].coq())
	}
	return fmt.Sprintf("SC %s\n     %s %s", a.Primary, coqfmt.List(ss), coqfmt.Bool(onTracksErr))
}
