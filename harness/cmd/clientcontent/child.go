package main

// The child process: runs the REAL gohlslib.Client against an in-process stub
// http.RoundTripper that serves the resources of one job. A panic anywhere in the client
// terminates this process with Go's exit status 2 and the goroutine trace on stderr, which
// the parent records. Everything else is reported as one JSON object on stdout.

import (
	"bytes"
	"encoding/json"
	"fmt"
	"io"
	"net/http"
	"os"
	"runtime/pprof"
	"strings"
	"sync"
	"sync/atomic"
	"syscall"
	"time"

	"github.com/bluenviron/gohlslib/v2"
	"github.com/bluenviron/gohlslib/v2/pkg/codecs"
)

// resource: what the stub server answers for one path. The k-th request of the path gets
// Bodies[min(k, len-1)].
type resource struct {
	Status int      `json:"status"`
	Bodies [][]byte `json:"bodies"`
}

// job is the child's input.
type job struct {
	URI         string               `json:"uri"`
	Resources   map[string]*resource `json:"resources"`
	OnTracksErr bool                 `json:"ontracks_err"`
	// CloseAt >= 0: Close() is called when the CloseAt-th request (0-based, over all paths)
	// arrives; that request is answered only through its context.
	CloseAt int `json:"close_at"`
	// CloseAfterDataMS > 0: Close() is called this many ms after the first onData callback
	CloseAfterDataMS int `json:"close_after_data_ms"`
	DeadlineMS       int `json:"deadline_ms"`       // wait this long for Wait() before calling Close()
	CloseDeadlineMS  int `json:"close_deadline_ms"` // after Close(), wait this long for Wait()
}

// childResult is the child's output.
type childResult struct {
	TracksCalled bool     `json:"tracks_called"`
	Tracks       []string `json:"tracks"`    // codec type per exposed track ("nil" for a nil Codec)
	Delivered    []int    `json:"delivered"` // onData invocations per exposed track
	DecodeErrors int      `json:"decode_errors"`
	WaitErr      string   `json:"wait_err"`
	NeededClose  bool     `json:"needed_close"` // Wait() returned only after the harness called Close()
	ClosedByPlan bool     `json:"closed_by_plan"`
	Hang         bool     `json:"hang"` // Wait() did not return within the deadline even after Close()
	Requests     []string `json:"requests"`
	CPUMillis    int64    `json:"cpu_ms"`
	WallMillis   int64    `json:"wall_ms"`
	AfterCloseMS int64    `json:"after_close_ms"`
	// when the deadline passed without an end: was a goroutine sleeping in handleData (playing a
	// sample that lies in the future) or waiting for the stub server? If neither, the client is
	// stalled: nothing will ever happen again until Close().
	Sleeping  bool     `json:"sleeping"`
	BlockedIn []string `json:"blocked_in,omitempty"`
}

type stubTransport struct {
	job     *job
	mu      sync.Mutex
	counts  map[string]int
	reqs    []string
	total   int
	onClose func()
}

func (s *stubTransport) RoundTrip(req *http.Request) (*http.Response, error) {
	s.mu.Lock()
	path := req.URL.Path
	if req.URL.RawQuery != "" {
		path += "?" + req.URL.RawQuery
	}
	idx := s.total
	s.total++
	if len(s.reqs) < 200 {
		s.reqs = append(s.reqs, path)
	}
	k := s.counts[req.URL.Path]
	s.counts[req.URL.Path] = k + 1
	s.mu.Unlock()

	if s.job.CloseAt >= 0 && idx == s.job.CloseAt {
		s.onClose()
		<-req.Context().Done()
		return nil, req.Context().Err()
	}
	if err := req.Context().Err(); err != nil {
		return nil, err
	}

	r, ok := s.job.Resources[req.URL.Path]
	if !ok || len(r.Bodies) == 0 {
		return &http.Response{
			StatusCode: http.StatusNotFound, Status: "404 Not Found", Proto: "HTTP/1.1", ProtoMajor: 1, ProtoMinor: 1,
			Header: http.Header{}, Body: io.NopCloser(bytes.NewReader(nil)), Request: req,
		}, nil
	}
	if k >= len(r.Bodies) {
		k = len(r.Bodies) - 1
	}
	st := r.Status
	if st == 0 {
		st = 200
	}
	body := r.Bodies[k]
	// a Range request is honoured as a server does: 206 with exactly those bytes, 416 past the end
	if rg := req.Header.Get("Range"); strings.HasPrefix(rg, "bytes=") && st == 200 {
		var a, b uint64
		if n, _ := fmt.Sscanf(rg[len("bytes="):], "%d-%d", &a, &b); n == 2 {
			if a >= uint64(len(body)) || b < a {
				return &http.Response{
					StatusCode: http.StatusRequestedRangeNotSatisfiable, Status: "416", Proto: "HTTP/1.1", ProtoMajor: 1, ProtoMinor: 1,
					Header: http.Header{}, Body: io.NopCloser(bytes.NewReader(nil)), Request: req,
				}, nil
			}
			end := b + 1
			if end > uint64(len(body)) || end == 0 {
				end = uint64(len(body))
			}
			body = body[a:end]
			st = http.StatusPartialContent
		}
	}
	return &http.Response{
		StatusCode: st, Status: fmt.Sprintf("%d", st), Proto: "HTTP/1.1", ProtoMajor: 1, ProtoMinor: 1,
		Header: http.Header{}, Body: io.NopCloser(bytes.NewReader(body)), ContentLength: int64(len(body)),
		Request: req,
	}, nil
}

func codecName(c codecs.Codec) string {
	switch c.(type) {
	case nil:
		return "nil"
	case *codecs.AV1:
		return "AV1"
	case *codecs.VP9:
		return "VP9"
	case *codecs.H265:
		return "H265"
	case *codecs.H264:
		return "H264"
	case *codecs.Opus:
		return "Opus"
	case *codecs.MPEG4Audio:
		return "MPEG4Audio"
	}
	return fmt.Sprintf("%T", c)
}

func cpuMillis() int64 {
	var ru syscall.Rusage
	if syscall.Getrusage(syscall.RUSAGE_SELF, &ru) != nil {
		return 0
	}
	return (ru.Utime.Sec+ru.Stime.Sec)*1000 + int64(ru.Utime.Usec+ru.Stime.Usec)/1000
}

func runChild(jobPath string) {
	raw, err := os.ReadFile(jobPath)
	if err != nil {
		fmt.Fprintln(os.Stderr, "child: cannot read job:", err)
		os.Exit(4)
	}
	var j job
	if err := json.Unmarshal(raw, &j); err != nil {
		fmt.Fprintln(os.Stderr, "child: bad job:", err)
		os.Exit(4)
	}
	if j.DeadlineMS == 0 {
		j.DeadlineMS = 8000
	}
	if j.CloseDeadlineMS == 0 {
		j.CloseDeadlineMS = 8000
	}

	var res childResult
	var resMu sync.Mutex
	var delivered []*int64
	var decodeErrors int64
	start := time.Now()

	var c *gohlslib.Client
	var closeOnce sync.Once
	closedByPlan := make(chan struct{})
	tr := &stubTransport{job: &j, counts: map[string]int{}}
	tr.onClose = func() {
		closeOnce.Do(func() {
			close(closedByPlan)
			c.Close()
		})
	}

	// Close() in the middle of a segment: some time after the first unit was delivered
	var dataOnce sync.Once
	onData := func() {
		if j.CloseAfterDataMS <= 0 {
			return
		}
		dataOnce.Do(func() {
			go func() {
				time.Sleep(time.Duration(j.CloseAfterDataMS) * time.Millisecond)
				tr.onClose()
			}()
		})
	}

	c = &gohlslib.Client{
		URI:                       j.URI,
		HTTPClient:                &http.Client{Transport: tr},
		OnDownloadPrimaryPlaylist: func(string) {},
		OnDownloadStreamPlaylist:  func(string) {},
		OnDownloadSegment:         func(string) {},
		OnDownloadPart:            func(string) {},
		OnDecodeError:             func(error) { atomic.AddInt64(&decodeErrors, 1) },
		OnTracks: func(tracks []*gohlslib.Track) error {
			resMu.Lock()
			defer resMu.Unlock()
			res.TracksCalled = true
			for _, t := range tracks {
				res.Tracks = append(res.Tracks, codecName(t.Codec))
				n := new(int64)
				delivered = append(delivered, n)
				// what an application does: a type switch over the codec, one callback per known type
				switch t.Codec.(type) {
				case *codecs.AV1:
					c.OnDataAV1(t, func(int64, [][]byte) { atomic.AddInt64(n, 1); onData() })
				case *codecs.VP9:
					c.OnDataVP9(t, func(int64, []byte) { atomic.AddInt64(n, 1); onData() })
				case *codecs.H265, *codecs.H264:
					c.OnDataH26x(t, func(int64, int64, [][]byte) { atomic.AddInt64(n, 1); onData() })
				case *codecs.Opus:
					c.OnDataOpus(t, func(int64, [][]byte) { atomic.AddInt64(n, 1); onData() })
				case *codecs.MPEG4Audio:
					c.OnDataMPEG4Audio(t, func(int64, [][]byte) { atomic.AddInt64(n, 1); onData() })
				}
			}
			// also on stderr, so that the parent knows the exposed tracks when the process dies in a panic
			tj, _ := json.Marshal(res.Tracks)
			fmt.Fprintf(os.Stderr, "VERIF-TRACKS %s\n", tj)
			if j.OnTracksErr {
				return fmt.Errorf("verif: OnTracks refused")
			}
			return nil
		},
	}

	if err := c.Start(); err != nil {
		res.WaitErr = "start: " + err.Error()
	} else {
		// Wait for the end. A client in which, twice in a row (0.5 s apart, after a grace period),
		// no goroutine is downloading or waiting for a sample's time and no new request arrived
		// cannot make progress any more without Close(): it is declared stalled before the deadline.
		deadline := time.After(time.Duration(j.DeadlineMS) * time.Millisecond)
		poll := time.NewTicker(500 * time.Millisecond)
		defer poll.Stop()
		idle, lastReq := 0, -1
		ended := false
		forceClose := func() {
			res.NeededClose = true
			res.Sleeping, res.BlockedIn = whereBlocked()
			// a client that is still issuing requests (a live / low-latency playlist reloaded over and over: the stub
			// answers at once) is not stalled, even if the one goroutine dump happens to catch it between two downloads
			tr.mu.Lock()
			if tr.total != lastReq {
				res.Sleeping = true
			}
			tr.mu.Unlock()
			t0 := time.Now()
			c.Close()
			select {
			case err := <-c.Wait():
				res.WaitErr = errString(err)
				res.AfterCloseMS = time.Since(t0).Milliseconds()
			case <-time.After(time.Duration(j.CloseDeadlineMS) * time.Millisecond):
				res.Hang = true
			}
		}
		for !ended {
			select {
			case err := <-c.Wait():
				res.WaitErr = errString(err)
				ended = true
			case <-closedByPlan:
				res.ClosedByPlan = true
				t0 := time.Now()
				select {
				case err := <-c.Wait():
					res.WaitErr = errString(err)
					res.AfterCloseMS = time.Since(t0).Milliseconds()
				case <-time.After(time.Duration(j.CloseDeadlineMS) * time.Millisecond):
					res.Hang = true
				}
				ended = true
			case <-poll.C:
				if time.Since(start) < 1500*time.Millisecond {
					continue
				}
				tr.mu.Lock()
				nreq := tr.total
				tr.mu.Unlock()
				if sl, _ := whereBlocked(); !sl && nreq == lastReq {
					idle++
				} else {
					idle = 0
				}
				lastReq = nreq
				if idle < 2 {
					continue
				}
				forceClose()
				ended = true
			case <-deadline:
				forceClose()
				ended = true
			}
		}
		// Close after the end must be harmless too
		c.Close()
	}

	resMu.Lock()
	for _, n := range delivered {
		res.Delivered = append(res.Delivered, int(atomic.LoadInt64(n)))
	}
	res.DecodeErrors = int(atomic.LoadInt64(&decodeErrors))
	tr.mu.Lock()
	res.Requests = tr.reqs
	tr.mu.Unlock()
	res.CPUMillis = cpuMillis()
	res.WallMillis = time.Since(start).Milliseconds()
	out, _ := json.Marshal(res)
	resMu.Unlock()
	if res.Hang {
		// where is everybody stuck
		pprof.Lookup("goroutine").WriteTo(os.Stderr, 1)
	}
	os.Stdout.Write(out)
	os.Stdout.Write([]byte("\n"))
	if res.Hang {
		os.Exit(3)
	}
	os.Exit(0)
}

func errString(err error) string {
	if err == nil {
		return "<nil>"
	}
	return err.Error()
}

// whereBlocked inspects the goroutine dump: the gohlslib functions goroutines are parked in, and
// whether one of them is the timed wait of clientTrack.handleData or an HTTP exchange.
func whereBlocked() (bool, []string) {
	var buf bytes.Buffer
	pprof.Lookup("goroutine").WriteTo(&buf, 1)
	sleeping := false
	seen := map[string]bool{}
	var fns []string
	for _, l := range strings.Split(buf.String(), "\n") {
		k := strings.Index(l, "gohlslib/v2.")
		if k < 0 {
			continue
		}
		f := strings.TrimSpace(l[k+len("gohlslib/v2."):])
		if i := strings.Index(f, "+0x"); i > 0 {
			f = f[:i]
		}
		if strings.Contains(f, "(*clientTrack).handleData") || strings.Contains(f, "downloadPlaylist") ||
			strings.Contains(f, "downloadSegment") || strings.Contains(f, "downloadPreloadHint") {
			sleeping = true
		}
		if !seen[f] && !strings.Contains(f, "clientRoutinePool") && len(fns) < 12 {
			seen[f] = true
			fns = append(fns, f)
		}
	}
	return sleeping, fns
}
