package main

// Recipes (generator-level descriptions of a stream) and their compilation into the bytes
// the stub server returns. Valid payloads are produced with mediacommon (fmp4.Init /
// fmp4.Part marshalers) and go-astits (MPEG-TS muxer, so that stream types mediacommon or
// gohlslib do not support can be written too); byte-level mutations are applied afterwards.

import (
	"bytes"
	"context"
	"encoding/binary"
	"fmt"
	"strconv"
	"strings"

	"github.com/asticode/go-astits"
	"github.com/bluenviron/mediacommon/v2/pkg/codecs/h264"
	"github.com/bluenviron/mediacommon/v2/pkg/codecs/mpeg4audio"
	"github.com/bluenviron/mediacommon/v2/pkg/formats/fmp4"
	"github.com/bluenviron/mediacommon/v2/pkg/formats/fmp4/seekablebuffer"
)

// ---------- recipe types ----------

// TrackR is one track of an fMP4 init (Codec is one of fmp4CodecNames) or one elementary
// stream of an MPEG-TS PMT (Codec is one of tsCodecNames; ID and TimeScale unused).
type TrackR struct {
	ID        int    `json:"id"`
	TimeScale uint32 `json:"timescale"`
	Codec     string `json:"codec"`
}

// SampleR is one fMP4 sample.
type SampleR struct {
	Dur    uint32 `json:"dur"`
	PTSOff int32  `json:"ptsoff,omitempty"`
	Bad    bool   `json:"bad,omitempty"` // payload that the codec's payload decoder rejects
}

// PartTrackR is one traf.
type PartTrackR struct {
	ID       int       `json:"id"`
	BaseTime uint64    `json:"base"`
	Samples  []SampleR `json:"samples"`
}

// PartR is one moof+mdat.
type PartR struct {
	Tracks []PartTrackR `json:"tracks"`
}

// TSEventR is one PES packet of an MPEG-TS segment.
type TSEventR struct {
	Track int    `json:"track"` // index into the PMT
	PTS   int64  `json:"pts"`
	DTS   int64  `json:"dts"`
	Kind  string `json:"kind,omitempty"` // "" valid payload, "bad" undecodable payload, "nopts" PES without PTS
}

// ByteMut is a byte-level mutation of a built payload.
//
//	truncate-box k   cut the file at the k-th box boundary (mod number of boundaries)
//	drop-box k       remove the k-th box, fixing the sizes of its ancestors
//	rename-box k     overwrite the type of the k-th box with 'zzzz' (a type go-mp4 does not know)
//	empty-box k      remove the children/payload of the k-th box (size fixed up)
//	dup-box k        duplicate the k-th box in place
//	tfdt-v0          set the version of every tfdt to 0
//	trun-count k     overwrite sample_count of the first trun with k
//	truncate k       cut at byte k (mod len)
//	ts-truncate-pkt k   cut an MPEG-TS payload at packet k
//	ts-truncate-mid k   cut an MPEG-TS payload 100 bytes into packet k
//	ts-sync k        destroy the sync byte of packet k
//	ts-drop-pkt k    remove packet k
//	garbage          replace the payload with bytes that are no container at all
//	empty            replace the payload with nothing
type ByteMut struct {
	Kind string `json:"kind"`
	K    int    `json:"k,omitempty"`
}

// SegR is one media segment (fMP4: parts; MPEG-TS: events).
type SegR struct {
	Parts  []PartR    `json:"parts,omitempty"`
	Events []TSEventR `json:"events,omitempty"`
	Muts   []ByteMut  `json:"muts,omitempty"`
	// Range: the segment is listed with an EXT-X-BYTERANGE (see rangeOf); "" = no byte range
	Range string `json:"range,omitempty"`
}

// StreamR is one media playlist with its init and segments.
type StreamR struct {
	Container string    `json:"container"` // "fmp4" | "mpegts"
	DateTime  bool      `json:"datetime,omitempty"`
	Tracks    []TrackR  `json:"tracks"`
	InitMuts  []ByteMut `json:"init_muts,omitempty"`
	// Packed: all segments are sub-ranges of ONE resource (s<i>_all.<ext>), listed in order; a segment whose Range
	// is "full" is listed length-only (its offset is implied by the previous segment), any other with <n>@<o>
	Packed bool `json:"packed,omitempty"`
	// MapRange: EXT-X-MAP carries a BYTERANGE attribute (see rangeOf); "" = none
	MapRange string `json:"map_range,omitempty"`
	Segments []SegR `json:"segments"`
	// RawPlaylist (oracle-only stream): served verbatim as this stream's media playlist
	RawPlaylist []byte `json:"raw_playlist,omitempty"`
}

// VariantR / RenditionR: the multivariant playlist.
type VariantR struct {
	Codecs    string `json:"codecs"` // CODECS attribute, comma separated ("" = attribute absent)
	Bandwidth int    `json:"bandwidth"`
	Stream    int    `json:"stream"` // index into Recipe.Streams the URI points to (-1: a URI nothing is served for)
	Audio     string `json:"audio,omitempty"`
}

type RenditionR struct {
	GroupID string `json:"group"`
	Stream  int    `json:"stream"` // index into Recipe.Streams; -1 = no URI attribute
	Name    string `json:"name"`
}

// Recipe is one test stream.
type Recipe struct {
	Kind         string       `json:"kind"` // "content" (model-compared) | "playlist-corpus" | "content-multi" (oracle only)
	Multivariant bool         `json:"multivariant,omitempty"`
	Variants     []VariantR   `json:"variants,omitempty"`
	Renditions   []RenditionR `json:"renditions,omitempty"`
	Streams      []StreamR    `json:"streams"`
	OnTracksErr  bool         `json:"ontracks_err,omitempty"`
	CloseAt      int          `json:"close_at"` // -1: never
	// CloseAfterDataMS > 0: Close() is called this many ms after the first onData callback, i.e. while the
	// stream processor is in the middle of a segment
	CloseAfterDataMS int `json:"close_after_data_ms,omitempty"`
	// RawPrimary (oracle-only stream): served verbatim as the primary playlist
	RawPrimary []byte `json:"raw_primary,omitempty"`
	// Tags: variations of a valid stream that are not deviations (e.g. byte ranges that cover the whole resource)
	Tags []string `json:"tags,omitempty"`
	// Faults: how many deviations from a valid stream the generator put in (tie compares 0/1-fault cases)
	Faults []string `json:"faults,omitempty"`
}

var fmp4CodecNames = []string{
	"av1", "vp9", "h265", "h264", "opus", "mpeg4audio", // gohlslib has a codec for these
	"mpeg4video", "mpeg1video", "mjpeg", "mpeg1audio", "ac3", "lpcm", // mediacommon only
}

var tsCodecNames = []string{
	"h264", "mpeg4audio", // gohlslib supports these two
	"h265", "mpeg4video", "mpeg1video", "mpeg2video", "opus", "mpeg1audio", "ac3", // mediacommon only
	"dirac", "private", "eac3", // nobody
}

func fmp4Supported(c string) bool {
	switch c {
	case "av1", "vp9", "h265", "h264", "opus", "mpeg4audio":
		return true
	}
	return false
}

// ---------- fMP4 ----------

var testSPS = []byte{
	0x67, 0x42, 0xc0, 0x28, 0xd9, 0x00, 0x78, 0x02,
	0x27, 0xe5, 0x84, 0x00, 0x00, 0x03, 0x00, 0x04,
	0x00, 0x00, 0x03, 0x00, 0xf0, 0x3c, 0x60, 0xc9,
	0x20,
}

var testH265SPS = []byte{
	0x42, 0x01, 0x01, 0x01, 0x60, 0x00, 0x00, 0x03,
	0x00, 0x90, 0x00, 0x00, 0x03, 0x00, 0x00, 0x03,
	0x00, 0x78, 0xa0, 0x03, 0xc0, 0x80, 0x10, 0xe5,
	0x96, 0x66, 0x69, 0x24, 0xca, 0xe0, 0x10, 0x00,
	0x00, 0x03, 0x00, 0x10, 0x00, 0x00, 0x03, 0x01,
	0xe0, 0x80,
}

func fmp4Codec(name string) (fmp4.Codec, error) {
	switch name {
	case "av1":
		return &fmp4.CodecAV1{SequenceHeader: []byte{0x0a, 0x0b, 0, 0, 0, 66, 167, 191, 228, 96, 13, 0, 64}}, nil
	case "vp9":
		return &fmp4.CodecVP9{Width: 1920, Height: 1080, Profile: 1, BitDepth: 8, ChromaSubsampling: 1}, nil
	case "h265":
		return &fmp4.CodecH265{VPS: []byte{0x01, 0x02, 0x03, 0x04}, SPS: testH265SPS, PPS: []byte{0x08}}, nil
	case "h264":
		return &fmp4.CodecH264{SPS: testSPS, PPS: []byte{0x08}}, nil
	case "opus":
		return &fmp4.CodecOpus{ChannelCount: 2}, nil
	case "mpeg4audio":
		return &fmp4.CodecMPEG4Audio{Config: mpeg4audio.Config{Type: 2, SampleRate: 44100, ChannelCount: 2}}, nil
	case "mpeg4video":
		return &fmp4.CodecMPEG4Video{Config: []byte{
			0x00, 0x00, 0x01, 0xb0, 0x01, 0x00, 0x00, 0x01,
			0xb5, 0x89, 0x13, 0x00, 0x00, 0x01, 0x00, 0x00,
			0x00, 0x01, 0x20, 0x00, 0xc4, 0x8d, 0x88, 0x00,
			0xf5, 0x3c, 0x04, 0x87, 0x14, 0x63, 0x00, 0x00,
			0x01, 0xb2, 0x4c, 0x61, 0x76, 0x63, 0x35, 0x38,
			0x2e, 0x31, 0x33, 0x34, 0x2e, 0x31, 0x30, 0x30,
		}}, nil
	case "mpeg1video":
		return &fmp4.CodecMPEG1Video{Config: []byte{
			0x00, 0x00, 0x01, 0xb3, 0x78, 0x04, 0x38, 0x35,
			0xff, 0xff, 0xe0, 0x18, 0x00, 0x00, 0x01, 0xb5,
			0x14, 0x4a, 0x00, 0x01, 0x00, 0x00,
		}}, nil
	case "mjpeg":
		return &fmp4.CodecMJPEG{Width: 640, Height: 480}, nil
	case "mpeg1audio":
		return &fmp4.CodecMPEG1Audio{SampleRate: 48000, ChannelCount: 2}, nil
	case "ac3":
		return &fmp4.CodecAC3{SampleRate: 48000, ChannelCount: 6, Bsid: 8, Acmod: 7, LfeOn: true, BitRateCode: 0xf}, nil
	case "lpcm":
		return &fmp4.CodecLPCM{BitDepth: 24, SampleRate: 48000, ChannelCount: 2}, nil
	}
	return nil, fmt.Errorf("unknown fmp4 codec %q", name)
}

func buildInit(tracks []TrackR) ([]byte, error) {
	var init fmp4.Init
	for _, t := range tracks {
		c, err := fmp4Codec(t.Codec)
		if err != nil {
			return nil, err
		}
		init.Tracks = append(init.Tracks, &fmp4.InitTrack{ID: t.ID, TimeScale: t.TimeScale, Codec: c})
	}
	var buf seekablebuffer.Buffer
	if err := init.Marshal(&buf); err != nil {
		return nil, err
	}
	return buf.Bytes(), nil
}

// samplePayload returns a payload valid (or, with bad, invalid) for the payload decoder
// gohlslib would use for a track of this codec.
func samplePayload(codec string, bad bool, n int) []byte {
	if bad {
		// AVCC: a length prefix that exceeds the data; AV1: an OBU whose size field runs past the end
		switch codec {
		case "av1":
			return []byte{0x0a, 0x7f, 0x01}
		default:
			return []byte{0x00, 0x00, 0x00, 0x09, 0x01}
		}
	}
	switch codec {
	case "av1":
		s := &fmp4.PartSample{}
		if err := s.FillAV1([][]byte{{0x0a, 0x0b, 0, 0, 0, 66, 167, 191, 228, 96, 13, 0, 64}}); err != nil {
			panic(err)
		}
		return s.Payload
	case "h265":
		s := &fmp4.PartSample{}
		if err := s.FillH265(0, [][]byte{{0x26, 0x01, byte(n), 0x03}}); err != nil {
			panic(err)
		}
		return s.Payload
	case "h264":
		s := &fmp4.PartSample{}
		if err := s.FillH264(0, [][]byte{{0x05, 0x01, byte(n), 0x03}}); err != nil {
			panic(err)
		}
		return s.Payload
	}
	// raw payloads; for codecs gohlslib has no decoder for, a valid AVCC unit as well
	return []byte{0x00, 0x00, 0x00, 0x02, 0x41, byte(n)}
}

func codecOfTrackID(tracks []TrackR, id int) string {
	c := ""
	for _, t := range tracks {
		if t.ID == id {
			c = t.Codec // the client's map keeps the last track with an id
		}
	}
	return c
}

func buildParts(tracks []TrackR, parts []PartR, seq *uint32) ([]byte, error) {
	var ps fmp4.Parts
	for _, p := range parts {
		part := &fmp4.Part{SequenceNumber: *seq}
		*seq++
		for _, pt := range p.Tracks {
			t := &fmp4.PartTrack{ID: pt.ID, BaseTime: pt.BaseTime}
			codec := codecOfTrackID(tracks, pt.ID)
			for i, s := range pt.Samples {
				t.Samples = append(t.Samples, &fmp4.PartSample{
					Duration: s.Dur, PTSOffset: s.PTSOff, Payload: samplePayload(codec, s.Bad, i),
				})
			}
			part.Tracks = append(part.Tracks, t)
		}
		ps = append(ps, part)
	}
	var buf seekablebuffer.Buffer
	if err := ps.Marshal(&buf); err != nil {
		return nil, err
	}
	return buf.Bytes(), nil
}

// ---------- ISO BMFF box walker used by the byte-level mutations ----------

type boxRef struct {
	start, end int // [start,end) of the whole box
	hdr        int // header length (8, or more for containers with fixed fields)
	typ        string
	ancestors  []int // start offsets of enclosing boxes
}

var containerBoxes = map[string]int{ // type -> bytes of fixed fields after the 8-byte header
	"moov": 0, "trak": 0, "mdia": 0, "minf": 0, "stbl": 0, "mvex": 0, "moof": 0, "traf": 0, "dinf": 0,
	"stsd": 8,
	"avc1": 78, "hev1": 78, "hvc1": 78, "av01": 78, "vp09": 78, "mp4v": 78,
	"mp4a": 28, "Opus": 28, "ac-3": 28, "ipcm": 28,
}

func walkBoxes(b []byte, from, to int, anc []int, out *[]boxRef) {
	pos := from
	for pos+8 <= to {
		sz := int(binary.BigEndian.Uint32(b[pos:]))
		typ := string(b[pos+4 : pos+8])
		if sz < 8 || pos+sz > to {
			return
		}
		ref := boxRef{start: pos, end: pos + sz, hdr: 8, typ: typ, ancestors: append([]int{}, anc...)}
		if extra, ok := containerBoxes[typ]; ok {
			ref.hdr = 8 + extra
		}
		*out = append(*out, ref)
		if extra, ok := containerBoxes[typ]; ok && pos+8+extra <= pos+sz {
			walkBoxes(b, pos+8+extra, pos+sz, append(anc, pos), out)
		}
		pos += sz
	}
}

func listBoxes(b []byte) []boxRef {
	var out []boxRef
	walkBoxes(b, 0, len(b), nil, &out)
	return out
}

func fixSizes(b []byte, anc []int, delta int) {
	for _, a := range anc {
		sz := int(binary.BigEndian.Uint32(b[a:]))
		binary.BigEndian.PutUint32(b[a:], uint32(sz+delta))
	}
}

func applyMut(b []byte, m ByteMut) []byte {
	b = append([]byte{}, b...)
	switch m.Kind {
	case "garbage":
		return []byte("this is not a media container\n")
	case "empty":
		return []byte{}
	case "truncate":
		if len(b) == 0 {
			return b
		}
		return b[:mod(m.K, len(b))]
	case "tfdt-v0":
		for _, r := range listBoxes(b) {
			if r.typ == "tfdt" && r.start+9 <= len(b) {
				b[r.start+8] = 0
			}
		}
		return b
	case "trun-count":
		for _, r := range listBoxes(b) {
			if r.typ == "trun" && r.start+16 <= len(b) {
				binary.BigEndian.PutUint32(b[r.start+12:], uint32(m.K))
				break
			}
		}
		return b
	case "ts-truncate-pkt":
		n := len(b) / 188
		if n == 0 {
			return b
		}
		return b[:188*mod(m.K, n)]
	case "ts-truncate-mid":
		n := len(b) / 188
		if n == 0 {
			return b
		}
		return b[:188*mod(m.K, n)+100]
	case "ts-sync":
		n := len(b) / 188
		if n == 0 {
			return b
		}
		b[188*mod(m.K, n)] = 0x00
		return b
	case "ts-drop-pkt":
		n := len(b) / 188
		if n == 0 {
			return b
		}
		k := mod(m.K, n)
		return append(b[:188*k], b[188*(k+1):]...)
	}
	boxes := listBoxes(b)
	if len(boxes) == 0 {
		return b
	}
	switch m.Kind {
	case "truncate-box":
		// boundaries: every box start, every box end
		var bounds []int
		seen := map[int]bool{}
		for _, r := range boxes {
			for _, x := range []int{r.start, r.end} {
				if !seen[x] && x > 0 && x < len(b) {
					seen[x] = true
					bounds = append(bounds, x)
				}
			}
		}
		if len(bounds) == 0 {
			return b
		}
		return b[:bounds[mod(m.K, len(bounds))]]
	case "drop-box":
		r := boxes[mod(m.K, len(boxes))]
		out := append(append([]byte{}, b[:r.start]...), b[r.end:]...)
		fixSizes(out, r.ancestors, -(r.end - r.start))
		return out
	case "rename-box":
		r := boxes[mod(m.K, len(boxes))]
		copy(b[r.start+4:], "zzzz")
		return b
	case "empty-box":
		r := boxes[mod(m.K, len(boxes))]
		if r.start+r.hdr > r.end {
			return b
		}
		out := append(append([]byte{}, b[:r.start+r.hdr]...), b[r.end:]...)
		binary.BigEndian.PutUint32(out[r.start:], uint32(r.hdr))
		fixSizes(out, r.ancestors, -(r.end - r.start - r.hdr))
		return out
	case "dup-box":
		r := boxes[mod(m.K, len(boxes))]
		out := append(append(append([]byte{}, b[:r.end]...), b[r.start:r.end]...), b[r.end:]...)
		fixSizes(out, r.ancestors, r.end-r.start)
		return out
	}
	panic("unknown mutation " + m.Kind)
}

func mod(a, n int) int {
	a %= n
	if a < 0 {
		a += n
	}
	return a
}

func applyMuts(b []byte, ms []ByteMut) []byte {
	for _, m := range ms {
		b = applyMut(b, m)
	}
	return b
}

// ---------- MPEG-TS ----------

var ac3Frame = []byte{
	0x0b, 0x77, 0x47, 0x11, 0x0c, 0x40, 0x2f, 0x84, 0x2b, 0xc1, 0x07, 0x7a, 0xb0, 0xfa, 0xbb, 0xea,
	0xef, 0x9f, 0x57, 0x7c, 0xf9, 0xf3, 0xf7, 0xcf, 0x9f, 0x3e, 0x32, 0xfe, 0xd5, 0xc1, 0x50, 0xde,
	0xc5, 0x1e, 0x73, 0xd2, 0x6c, 0xa6, 0x94, 0x46, 0x4e, 0x92, 0x8c, 0x0f, 0xb9, 0xcf, 0xad, 0x07,
	0x54, 0x4a, 0x2e, 0xf3, 0x7d, 0x07, 0x2e, 0xa4, 0x2f, 0xba, 0xbf, 0x39, 0xb5, 0xc9, 0x92, 0xa6,
	0xe1, 0xb4, 0x70, 0xc5, 0xc4, 0xb5, 0xe6, 0x5d, 0x0f, 0xa8, 0x71, 0xa4, 0xcc, 0xc5, 0xbc, 0x75,
	0x67, 0x92, 0x52, 0x4f, 0x7e, 0x62, 0x1c, 0xa9, 0xd9, 0xb5, 0x19, 0x6a, 0xd7, 0xb0, 0x44, 0x92,
	0x30, 0x3b, 0xf7, 0x61, 0xd6, 0x49, 0x96, 0x66, 0x98, 0x28, 0x1a, 0x95, 0xa9, 0x42, 0xad, 0xb7,
	0x50, 0x90, 0xad, 0x1c, 0x34, 0x80, 0xe2, 0xef, 0xcd, 0x41, 0x0b, 0xf0, 0x9d, 0x57, 0x62, 0x78,
	0xfd, 0xc6, 0xc2, 0x19, 0x9e, 0x26, 0x31, 0xca, 0x1e, 0x75, 0xb1, 0x7a, 0x8e, 0xb5, 0x51, 0x3a,
	0xfe, 0xe4, 0xf1, 0x0b, 0x4f, 0x14, 0x90, 0xdb, 0x9f, 0x44, 0x50, 0xbb, 0xef, 0x74, 0x00, 0x8c,
	0x1f, 0x97, 0xa1, 0xa2, 0xfa, 0x72, 0x16, 0x47, 0xc6, 0xc0, 0xe5, 0xfe, 0x67, 0x03, 0x9c, 0xfe,
	0x62, 0x01, 0xa1, 0x00, 0x5d, 0xff, 0xa5, 0x03, 0x59, 0xfa, 0xa8, 0x25, 0x5f, 0x6b, 0x83, 0x51,
	0xf2, 0xc0, 0x44, 0xff, 0x2d, 0x05, 0x4b, 0xee, 0xe0, 0x54, 0x9e, 0xae, 0x86, 0x45, 0xf3, 0xbd,
	0x0e, 0x42, 0xf2, 0xbf, 0x0f, 0x7f, 0xc6, 0x09, 0x07, 0xdc, 0x22, 0x11, 0x77, 0xbe, 0x31, 0x27,
	0x5b, 0xa4, 0x13, 0x47, 0x07, 0x32, 0x9f, 0x1f, 0xcb, 0xb0, 0xdf, 0x3e, 0x7d, 0x0d, 0xf3, 0xe7,
	0xcf, 0x9f, 0x3e, 0xae, 0xf9, 0xf3, 0xe7, 0xcf, 0x9f, 0x3e, 0x85, 0x5d, 0xf3, 0xe7, 0xcf, 0x9f,
	0x3e, 0x7c, 0xf9, 0xf3, 0xe7, 0xcf, 0x9f, 0x3f, 0x53, 0x5d, 0xf3, 0xe7, 0xcf, 0x9f, 0x3e, 0x7c,
	0xf9, 0xf3, 0xe7, 0xcf, 0x9f, 0x3e, 0x7c, 0xf9, 0xf3, 0xe7, 0xcf, 0x9f, 0x3e, 0x7c, 0xf9, 0xf3,
	0xe7, 0xcf, 0x9f, 0x3e, 0x00, 0x46, 0x28, 0x26, 0x20, 0x4a, 0x5a, 0xc0, 0x8a, 0xc5, 0xae, 0xa0,
	0x55, 0x78, 0x82, 0x7a, 0x38, 0x10, 0x09, 0xc9, 0xb8, 0x0c, 0xfa, 0x5b, 0xc9, 0xd2, 0xec, 0x44,
	0x25, 0xf8, 0x20, 0xf2, 0xc8, 0x8a, 0xe9, 0x40, 0x18, 0x06, 0xc6, 0x2b, 0xc8, 0xed, 0x8f, 0x33,
	0x09, 0x92, 0x28, 0x1e, 0xc4, 0x24, 0xd8, 0x33, 0xa5, 0x00, 0xf5, 0xea, 0x18, 0xfa, 0x90, 0x97,
	0x97, 0xe8, 0x39, 0x6a, 0xcf, 0xf1, 0xdd, 0xff, 0x9e, 0x8e, 0x04, 0x02, 0xae, 0x65, 0x87, 0x5c,
	0x4e, 0x72, 0xfd, 0x3c, 0x01, 0x86, 0xfe, 0x56, 0x59, 0x74, 0x44, 0x3a, 0x40, 0x00, 0xec, 0xfc,
}

func tsStreamType(codec string) (astits.StreamType, []*astits.Descriptor, error) {
	switch codec {
	case "h264":
		return astits.StreamTypeH264Video, nil, nil
	case "h265":
		return astits.StreamTypeH265Video, nil, nil
	case "mpeg4video":
		return astits.StreamTypeMPEG4Video, nil, nil
	case "mpeg1video":
		return astits.StreamTypeMPEG1Video, nil, nil
	case "mpeg2video":
		return astits.StreamTypeMPEG2Video, nil, nil
	case "mpeg4audio":
		return astits.StreamTypeAACAudio, nil, nil
	case "mpeg1audio":
		return astits.StreamTypeMPEG1Audio, nil, nil
	case "ac3":
		return astits.StreamTypeAC3Audio, nil, nil
	case "eac3":
		return astits.StreamTypeEAC3Audio, nil, nil
	case "dirac":
		return astits.StreamTypeDIRACVideo, nil, nil
	case "private":
		return astits.StreamTypePrivateData, nil, nil
	case "opus":
		return astits.StreamTypePrivateData, []*astits.Descriptor{
			{Length: 4, Tag: astits.DescriptorTagRegistration,
				Registration: &astits.DescriptorRegistration{FormatIdentifier: 'O'<<24 | 'p'<<16 | 'u'<<8 | 's'}},
			{Length: 2, Tag: astits.DescriptorTagExtension,
				Extension: &astits.DescriptorExtension{Tag: 0x80, Unknown: &[]uint8{2}}},
		}, nil
	}
	return 0, nil, fmt.Errorf("unknown ts codec %q", codec)
}

func tsPayload(codec string, kind string, n int) []byte {
	if kind == "bad" {
		switch codec {
		case "mpeg4audio":
			return []byte{0x01, 0x02, 0x03}
		default:
			return []byte{0x00, 0x00, 0x00, 0x00} // no Annex-B start code followed by a NALU
		}
	}
	switch codec {
	case "h264":
		b, err := h264.AnnexB([][]byte{{7, 1, 2}, {8, 1}, {5, byte(n), 1}}).Marshal()
		if err != nil {
			panic(err)
		}
		return b
	case "h265":
		b, err := h264.AnnexB([][]byte{{0x26, 0x01, byte(n)}}).Marshal()
		if err != nil {
			panic(err)
		}
		return b
	case "mpeg4audio":
		b, err := mpeg4audio.ADTSPackets{{Type: 2, SampleRate: 44100, ChannelCount: 2, AU: []byte{1, 2, byte(n), 4}}}.Marshal()
		if err != nil {
			panic(err)
		}
		return b
	case "ac3":
		return ac3Frame
	}
	return []byte{0x00, 0x00, 0x01, 0xb3, byte(n), 0x04, 0x38, 0x35}
}

func buildTS(tracks []TrackR, events []TSEventR) ([]byte, error) {
	var buf bytes.Buffer
	mux := astits.NewMuxer(context.Background(), &buf)
	for i, t := range tracks {
		st, desc, err := tsStreamType(t.Codec)
		if err != nil {
			return nil, err
		}
		err = mux.AddElementaryStream(astits.PMTElementaryStream{
			ElementaryPID: uint16(256 + i), StreamType: st, ElementaryStreamDescriptors: desc,
		})
		if err != nil {
			return nil, err
		}
	}
	if len(tracks) > 0 {
		mux.SetPCRPID(256)
	}
	if _, err := mux.WriteTables(); err != nil {
		return nil, err
	}
	for n, e := range events {
		if e.Track < 0 || e.Track >= len(tracks) {
			continue
		}
		oh := &astits.PESOptionalHeader{MarkerBits: 2}
		switch {
		case e.Kind == "nopts":
			oh.PTSDTSIndicator = astits.PTSDTSIndicatorNoPTSOrDTS
		case e.PTS == e.DTS:
			oh.PTSDTSIndicator = astits.PTSDTSIndicatorOnlyPTS
			oh.PTS = &astits.ClockReference{Base: e.PTS}
		default:
			oh.PTSDTSIndicator = astits.PTSDTSIndicatorBothPresent
			oh.PTS = &astits.ClockReference{Base: e.PTS}
			oh.DTS = &astits.ClockReference{Base: e.DTS}
		}
		sid := uint8(0xe0)
		if strings.Contains(tracks[e.Track].Codec, "audio") || tracks[e.Track].Codec == "ac3" || tracks[e.Track].Codec == "opus" {
			sid = 0xc0
		}
		_, err := mux.WriteData(&astits.MuxerData{
			PID:             uint16(256 + e.Track),
			AdaptationField: &astits.PacketAdaptationField{RandomAccessIndicator: true},
			PES: &astits.PESData{
				Header: &astits.PESHeader{OptionalHeader: oh, StreamID: sid},
				Data:   tsPayload(tracks[e.Track].Codec, e.Kind, n),
			},
		})
		if err != nil {
			return nil, err
		}
	}
	return buf.Bytes(), nil
}

// ---------- playlists and the resource table ----------

var testDate = "2010-01-01T01:01:01Z"

// byteRangeKinds: how a resource of n bytes is listed.
//
//	full@0  <n>@0        the whole resource, with offset
//	full    <n>          the whole resource, length only (the @o is optional: RFC 8216 4.3.2.2 / 4.3.2.5)
//	half@0  <n/2>@0      the first half, with offset
//	half    <n/2>        the first half, length only
//	rest@8  <n-8>@8      everything after the first 8 bytes
var byteRangeKinds = []string{"full@0", "full", "half@0", "half", "rest@8"}

// rangeOf: length and optional offset of a byte range of kind spec over a resource of total bytes
// (ok = false: no range is written, e.g. for an empty resource).
func rangeOf(spec string, total int) (length int, off *int, ok bool) {
	if spec == "" || total == 0 {
		return 0, nil, false
	}
	zero, eight := 0, 8
	switch spec {
	case "full@0":
		return total, &zero, true
	case "full":
		return total, nil, true
	case "half@0":
		return (total + 1) / 2, &zero, true
	case "half":
		return (total + 1) / 2, nil, true
	case "rest@8":
		if total <= 8 {
			return total, &zero, true
		}
		return total - 8, &eight, true
	}
	panic("unknown byte range kind " + spec)
}

// litRange: a byte range written LITERALLY into the playlist, whatever the resource's size: "lit:<n>" or
// "lit:<n>@<o>" with n, o any uint64 (absurd lengths and offsets: 2^62, 2^63-1, 2^63, 2^64-1, offset + length
// past 2^64). The playlist decoder accepts every uint64.
func litRange(spec string) (n uint64, off *uint64, ok bool) {
	if !strings.HasPrefix(spec, "lit:") {
		return 0, nil, false
	}
	t := spec[len("lit:"):]
	if i := strings.IndexByte(t, '@'); i >= 0 {
		o, err := strconv.ParseUint(t[i+1:], 10, 64)
		if err != nil {
			panic("bad literal byte range " + spec)
		}
		off, t = &o, t[:i]
	}
	n, err := strconv.ParseUint(t, 10, 64)
	if err != nil {
		panic("bad literal byte range " + spec)
	}
	return n, off, true
}

// litFetch: what the UNCHANGED client obtains for a resource listed with a literal range. It asks for
// bytes=<o>-<o+n-1> (o = 0 without offset; the sum is computed in uint64 and wraps) and the stub server answers
// as a server does: 416 when the first byte lies past the end or the last byte before the first (refused: the
// client ends with "bad status code: 416"), otherwise 206 with the bytes that exist.
func litFetch(spec string, body []byte) (got []byte, refused bool) {
	n, off, _ := litRange(spec)
	st := uint64(0)
	if off != nil {
		st = *off
	}
	last := st + n - 1 // wraps like the client's arithmetic
	if st >= uint64(len(body)) || last < st {
		return nil, true
	}
	end := last + 1
	if end > uint64(len(body)) || end == 0 {
		end = uint64(len(body))
	}
	return body[st:end], false
}

func rangeText(spec string, total int) string {
	if strings.HasPrefix(spec, "lit:") {
		return spec[len("lit:"):]
	}
	n, off, ok := rangeOf(spec, total)
	if !ok {
		return ""
	}
	if off == nil {
		return fmt.Sprintf("%d", n)
	}
	return fmt.Sprintf("%d@%d", n, *off)
}

// effectiveBytes: what the UNCHANGED client obtains for a resource listed with this range: it asks for
// bytes=<o>-<o+n-1>, with o = 0 when the range has no offset (for a length-only range that is not the
// first of its resource this is the recorded C10 finding range-implicit; C13 only wants no panic, no
// wedge, an error or normal play); the stub server answers 206 with exactly those bytes.
func effectiveBytes(spec string, body []byte) []byte {
	if strings.HasPrefix(spec, "lit:") {
		got, _ := litFetch(spec, body) // refused: nothing (such recipes are not compared with the model)
		return got
	}
	n, off, ok := rangeOf(spec, len(body))
	if !ok {
		return body
	}
	st := 0
	if off != nil {
		st = *off
	}
	end := st + n
	if end > len(body) {
		end = len(body)
	}
	return body[st:end]
}

// segRef: how one segment is listed
type segRef struct {
	URI   string
	Range string // text of EXT-X-BYTERANGE, "" = none
}

func mediaPlaylist(s *StreamR, idx int, initLen int, refs []segRef) []byte {
	if s.RawPlaylist != nil {
		return s.RawPlaylist
	}
	var sb strings.Builder
	sb.WriteString("#EXTM3U\n#EXT-X-VERSION:7\n#EXT-X-TARGETDURATION:2\n#EXT-X-MEDIA-SEQUENCE:0\n#EXT-X-PLAYLIST-TYPE:VOD\n")
	if s.Container == "fmp4" {
		fmt.Fprintf(&sb, "#EXT-X-MAP:URI=\"s%d_init.mp4\"", idx)
		if t := rangeText(s.MapRange, initLen); t != "" {
			fmt.Fprintf(&sb, ",BYTERANGE=\"%s\"", t)
		}
		sb.WriteString("\n")
	}
	for i, ref := range refs {
		if s.DateTime && i == 0 {
			fmt.Fprintf(&sb, "#EXT-X-PROGRAM-DATE-TIME:%s\n", testDate)
		}
		sb.WriteString("#EXTINF:1.00000,\n")
		if ref.Range != "" {
			fmt.Fprintf(&sb, "#EXT-X-BYTERANGE:%s\n", ref.Range)
		}
		sb.WriteString(ref.URI + "\n")
	}
	sb.WriteString("#EXT-X-ENDLIST\n")
	return []byte(sb.String())
}

// built holds the bytes served for a recipe, per stream.
type built struct {
	Job   job
	Inits [][]byte   // per stream (nil for MPEG-TS)
	Segs  [][][]byte // per stream, per segment
	// Refused: a literal byte range of the recipe is one the stub server answers with 416; LitRange: the recipe
	// has a literal byte range at all
	Refused  bool
	LitRange bool
}

func buildRecipe(r *Recipe) (*built, error) {
	b := &built{}
	b.Job = job{URI: "http://stub.invalid/index.m3u8", Resources: map[string]*resource{}, OnTracksErr: r.OnTracksErr, CloseAt: r.CloseAt, CloseAfterDataMS: r.CloseAfterDataMS}
	put := func(path string, body []byte) {
		b.Job.Resources[path] = &resource{Status: 200, Bodies: [][]byte{body}}
	}
	var primaryMedia []byte
	for i := range r.Streams {
		s := &r.Streams[i]
		var initB []byte
		var bodies [][]byte
		initLen := 0
		seq := uint32(1)
		ext := "ts"
		if s.Container == "fmp4" {
			ext = "mp4"
			var err error
			initB, err = buildInit(s.Tracks)
			if err != nil {
				return nil, fmt.Errorf("stream %d init: %w", i, err)
			}
			initB = applyMuts(initB, s.InitMuts)
			put(fmt.Sprintf("/s%d_init.mp4", i), initB)
			initLen = len(initB)
			if strings.HasPrefix(s.MapRange, "lit:") {
				b.LitRange = true
				if _, refused := litFetch(s.MapRange, initB); refused {
					b.Refused = true
				}
			}
			initB = effectiveBytes(s.MapRange, initB)
		}
		for k, sg := range s.Segments {
			var sb []byte
			var err error
			if s.Container == "fmp4" {
				sb, err = buildParts(s.Tracks, sg.Parts, &seq)
			} else {
				sb, err = buildTS(s.Tracks, sg.Events)
			}
			if err != nil {
				return nil, fmt.Errorf("stream %d seg %d: %w", i, k, err)
			}
			bodies = append(bodies, applyMuts(sb, sg.Muts))
		}
		var segs [][]byte // what the unchanged client obtains for each segment
		var refs []segRef
		litSeen, litRefused := false, false
		if s.Packed {
			var all []byte
			for _, b := range bodies {
				all = append(all, b...)
			}
			uri := fmt.Sprintf("s%d_all.%s", i, ext)
			put("/"+uri, all)
			off := 0
			for k, b := range bodies {
				switch {
				case len(b) == 0:
					// an empty sub-range cannot be written: the whole resource
					refs = append(refs, segRef{URI: uri})
					segs = append(segs, all)
				case s.Segments[k].Range == "full":
					// length only: the unchanged client asks for the first len(b) bytes of the resource
					refs = append(refs, segRef{URI: uri, Range: fmt.Sprintf("%d", len(b))})
					segs = append(segs, all[:len(b)])
				default:
					refs = append(refs, segRef{URI: uri, Range: fmt.Sprintf("%d@%d", len(b), off)})
					segs = append(segs, b)
				}
				off += len(b)
			}
		} else {
			for k, b := range bodies {
				uri := fmt.Sprintf("s%d_seg%d.%s", i, k, ext)
				put("/"+uri, b)
				refs = append(refs, segRef{URI: uri, Range: rangeText(s.Segments[k].Range, len(b))})
				if strings.HasPrefix(s.Segments[k].Range, "lit:") {
					litSeen = true
					if _, refused := litFetch(s.Segments[k].Range, b); refused {
						litRefused = true
					}
				}
				segs = append(segs, effectiveBytes(s.Segments[k].Range, b))
			}
		}
		b.LitRange = b.LitRange || litSeen
		b.Refused = b.Refused || litRefused
		b.Inits = append(b.Inits, initB)
		b.Segs = append(b.Segs, segs)
		pl := mediaPlaylist(s, i, initLen, refs)
		put(fmt.Sprintf("/s%d.m3u8", i), pl)
		if i == 0 {
			primaryMedia = pl
		}
	}
	switch {
	case r.RawPrimary != nil:
		put("/index.m3u8", r.RawPrimary)
	case r.Multivariant:
		var sb strings.Builder
		sb.WriteString("#EXTM3U\n#EXT-X-VERSION:7\n\n")
		for _, rd := range r.Renditions {
			fmt.Fprintf(&sb, "#EXT-X-MEDIA:TYPE=AUDIO,GROUP-ID=\"%s\",NAME=\"%s\"", rd.GroupID, rd.Name)
			if rd.Stream >= 0 {
				fmt.Fprintf(&sb, ",URI=\"s%d.m3u8\"", rd.Stream)
			}
			sb.WriteString("\n")
		}
		sb.WriteString("\n")
		for _, v := range r.Variants {
			fmt.Fprintf(&sb, "#EXT-X-STREAM-INF:BANDWIDTH=%d", v.Bandwidth)
			if v.Codecs != "" {
				fmt.Fprintf(&sb, ",CODECS=\"%s\"", v.Codecs)
			}
			if v.Audio != "" {
				fmt.Fprintf(&sb, ",AUDIO=\"%s\"", v.Audio)
			}
			if v.Stream >= 0 {
				fmt.Fprintf(&sb, "\ns%d.m3u8\n", v.Stream)
			} else {
				sb.WriteString("\nmissing.m3u8\n")
			}
		}
		put("/index.m3u8", []byte(sb.String()))
	default:
		// a media playlist as primary: stream 0 under the primary URI
		if len(r.Streams) > 0 {
			put("/index.m3u8", primaryMedia)
		}
	}
	return b, nil
}
