package main

import (
	"bytes"
	"fmt"
	"net/http"
	"net/http/httptest"
	"os"
	"strings"
	"time"

	gohlslib "github.com/bluenviron/gohlslib/v2"
)

// replayHistory writes the history frames sequentially and returns the abstract ops observed.
func replayHistory(d *driver, c *ctl, frames []bool) ([]wop, error) {
	var ops []wop
	for _, idr := range frames {
		before, err := d.snap()
		if err != nil {
			return nil, err
		}
		c.mu.Lock()
		c.seqEvents = nil
		c.mu.Unlock()
		if err := d.writeFrame(idr); err != nil {
			return nil, fmt.Errorf("write: %v", err)
		}
		after, err := d.snap()
		if err != nil {
			return nil, err
		}
		c.mu.Lock()
		evs := append([]string{}, c.seqEvents...)
		c.mu.Unlock()
		ops = append(ops, observeOps(before, after, evs)...)
	}
	return ops, nil
}

// drain flushes the requests still asleep in cond.Wait(): hooks pass through, and enough
// segment rotations are written for every pending request to be answered or to expire
// (keeps the number of parked goroutines, hence the cost of state inspection, small).
func drain(d *driver, c *ctl) {
	c.drain.Store(true)
	if !gohlslib.VerifServerMutexFree(d.m) || !gohlslib.VerifMutexFree(d.m) {
		return // a lock is held for good: a further write would block for ever
	}
	for i := 0; i < 12; i++ {
		if d.writeFrame(true) != nil {
			break
		}
	}
}

func hasContentSnap(cfg mcfg, s snapStream) bool {
	if cfg.Variant == "FMP4" {
		return s.Len >= 2
	}
	return s.Len >= 1
}

func header(sc scenario) string {
	return fmt.Sprintf("%s %d %d%%nat 0%%nat", sc.Cfg.coqVariant(), sc.Cfg.SegCount, sc.Cfg.Streams)
}

// ---------------- (A) sequential: state + probes ----------------

func runSeq(sc scenario, work string) (res result) {
	d, err := newDriver(sc.Cfg, work)
	if err != nil {
		res.infraErr = err.Error()
		return
	}
	defer cleanup(d)
	c := newCtl(d.m)
	ops, err := replayHistory(d, c, sc.History)
	if err != nil {
		res.infraErr = err.Error()
		return
	}
	snap, err := d.snap()
	if err != nil {
		res.infraErr = err.Error()
		return
	}
	refs := make([]*aplaylist, len(snap.Streams))
	for k := range snap.Streams {
		refs[k], err = d.refPlaylist(k, snap)
		if err != nil {
			res.infraErr = err.Error()
			return
		}
	}
	var probes []string
	nblock, nready, n400 := 0, 0, 0
	for i, rq := range sc.Probes {
		a := c.spawnReq(i, d.target(rq), true)
		c.release(a)
		wr := c.await([]*actor{a}, watchdog)
		var o outcome
		switch {
		case wr.ev != nil && wr.ev.point == "done":
			if err := o.fill(rq, a.resp); err != nil {
				res.infraErr = err.Error()
				return
			}
		case wr.ev != nil && strings.HasPrefix(wr.ev.point, "wait:"):
			o.Class = "waiting"
			if err := c.intoWait(a); err != nil { // left pending; the muxer is discarded
				res.infraErr = err.Error()
				return
			}
		default:
			res.infraErr = fmt.Sprintf("probe %d: unexpected %+v", i, wr)
			return
		}
		probes = append(probes, "("+rq.coq()+", "+o.pout(rq)+")")
		if len(rq.Query) > 0 {
			m := rq.Enc % 8
			if m >= 5 {
				m = 1
			}
			res.tags = append(res.tags, [...]string{"query-spelling:plain", "query-spelling:directive-keys-encoded",
				"query-spelling:mixed-directive-keys", "query-spelling:other-keys-and-values-encoded",
				"query-spelling:everything-encoded"}[m])
		}
		if rq.Kind == "media" {
			hc := hasContentSnap(sc.Cfg, snap.Streams[rq.Stream])
			one := sc // the failing input is the history with this one request
			one.Probes = []areq{rq}
			res.oracleMedia(one, rq, &o, refs[rq.Stream], hc, "quiescent state")
			mr := classifyMedia(rq.Query)
			if mr.ok && hc {
				switch {
				case o.Class == "waiting":
					nblock++
				case o.Status == 200:
					nready++
				case o.Status == 400:
					n400++
				}
			}
		}
	}
	var ss, ps []string
	for _, s := range snap.Streams {
		ss = append(ss, s.coq())
	}
	for _, p := range snap.Paths {
		ps = append(ps, p.coq())
	}
	res.coq = fmt.Sprintf("CSeq {| q_variant := %s; q_segmentCount := %d; q_nstreams := %d%%nat; q_leading := 0%%nat;\n"+
		"  q_ops := %s;\n  q_snap := [%s];\n  q_closed := %v; q_paths := [%s];\n  q_probes := [%s] |}",
		sc.Cfg.Variant, sc.Cfg.SegCount, sc.Cfg.Streams, wopsCoq(ops), strings.Join(ss, "; "), snap.Closed,
		strings.Join(ps, "; "), strings.Join(probes, ";\n    "))
	res.nontriv = nblock >= 1 && nready >= 1 && n400 >= 1
	res.tags = append(res.tags, "seq", fmt.Sprintf("seq:segments=%d", snap.Streams[0].Len),
		fmt.Sprintf("seq:ops=%d0-%d9", len(ops)/10, len(ops)/10))
	for i := 0; i < nblock; i++ {
		res.tags = append(res.tags, "probe:block")
	}
	for i := 0; i < nready; i++ {
		res.tags = append(res.tags, "probe:ready")
	}
	for i := 0; i < n400; i++ {
		res.tags = append(res.tags, "probe:400")
	}
	drain(d, c)
	d.m.Close()
	return
}

// ---------------- shared machinery of the forced-schedule runners ----------------

type phase struct {
	sc       scenario
	d        *driver
	c        *ctl
	w        *actor
	cmds     chan func()
	acts     []*actor
	reqs     []areq
	out      []outcome
	sleeping map[int]bool
	items    []string // model schedule
	prog     []wop
	progress int
	res      *result
	leakSeen bool
	// while several woken requesters run, the oracle (which needs the mutex for its reference
	// snapshot) is postponed until they have all settled; the state does not change meanwhile
	deferOracle     bool
	deferred        []func()
	lastWriterPoint string
}

func (p *phase) snapRefs() (snapshot, []*aplaylist, error) {
	s, err := p.d.snap()
	if err != nil {
		return s, nil, err
	}
	refs := make([]*aplaylist, len(s.Streams))
	for k := range s.Streams {
		refs[k], err = p.d.refPlaylist(k, s)
		if err != nil {
			return s, nil, err
		}
	}
	return s, refs, nil
}

func (p *phase) addReq(rq areq) int {
	i := len(p.acts)
	p.acts = append(p.acts, p.c.spawnReq(i, p.d.target(rq), false))
	p.reqs = append(p.reqs, rq)
	p.out = append(p.out, outcome{Class: "notstarted"})
	return i
}

// r1: requester i runs muxerServer.handle up to the hook after the table lookup
func (p *phase) r1(i int) error {
	p.c.release(p.acts[i])
	wr := p.c.await([]*actor{p.acts[i]}, watchdog)
	if wr.ev == nil || wr.ev.actor != i || wr.ev.point != "server:looked-up" {
		return fmt.Errorf("requester %d: expected server:looked-up, got %+v", i, wr)
	}
	p.out[i].Class = "lookedup"
	p.items = append(p.items, fmt.Sprintf("SR %d%%nat", i))
	return nil
}

// handle one event of requester i (it has just reported a hook point or completion)
func (p *phase) onReqEvent(i int, point string, when string) error {
	o := &p.out[i]
	switch {
	case point == "done":
		w := o.Waits
		if err := o.fill(p.reqs[i], p.acts[i].resp); err != nil {
			return err
		}
		o.Waits, o.Stamp = w, p.progress
		delete(p.sleeping, i)
		p.oracleSoon(i, when)
	case strings.HasPrefix(point, "wait:"):
		if err := p.c.intoWait(p.acts[i]); err != nil {
			return err
		}
		o.Class = "waiting"
		o.Waits++
		p.sleeping[i] = true
		p.oracleSoon(i, when)
	default:
		return fmt.Errorf("requester %d: unexpected hook %q", i, point)
	}
	return nil
}

func (p *phase) oracleSoon(i int, when string) {
	if p.deferOracle {
		p.deferred = append(p.deferred, func() { p.oracleAt(i, when) })
		return
	}
	p.oracleAt(i, when)
}

// property oracle at the moment requester i answered or went to sleep (the writer is parked)
func (p *phase) oracleAt(i int, when string) {
	rq := p.reqs[i]
	if p.sc.Kind == "close" || !gohlslib.VerifMutexFree(p.d.m) {
		return
	}
	s, refs, err := p.snapRefs()
	if err != nil {
		p.res.infraErr = err.Error()
		return
	}
	o := &p.out[i]
	switch rq.Kind {
	case "media":
		p.res.oracleMedia(p.sc, rq, o, refs[rq.Stream], hasContentSnap(p.sc.Cfg, s.Streams[rq.Stream]), when)
	case "path":
		if rq.PKind != "part" {
			return
		}
		desc := fmt.Sprintf("%s: GET part %d of stream %d", when, rq.ID, rq.Stream)
		switch {
		case o.Class == "waiting":
			if int64(rq.ID) < s.Streams[rq.Stream].NextPartID {
				p.res.fail(p.sc, "C06:preload-hint:blocks-although-part-complete", desc+": sleeps although the part is complete")
			}
		case o.Class == "done" && o.Status == 404:
			// acceptable only when the part is really gone (evicted while the request was pending)
			if direct := p.d.direct(p.d.target(rq)); direct.Status == 200 && direct.Wrote && len(direct.Body) > 0 {
				p.res.fail(p.sc, "C06:preload-hint:404-although-part-available", desc+": answered 404 although the part can still be fetched")
			}
		case o.Class == "done" && o.Status == 200:
			if int64(rq.ID) >= s.Streams[rq.Stream].NextPartID {
				p.res.fail(p.sc, "C06:preload-hint:answered-early", desc+": answered before the part was complete")
				return
			}
			if !o.Wrote || len(o.Body) == 0 {
				p.res.fail(p.sc, "C06:preload-hint:part-evicted-while-pending:empty-200",
					desc+": the handler wrote nothing (an empty 200) instead of the part's bytes or an error status")
				return
			}
			direct := p.d.direct(p.d.target(rq))
			if o.PartID == nil || *o.PartID != rq.ID || (direct.Status == 200 && !bytes.Equal(direct.Body, o.Body)) {
				p.res.fail(p.sc, "C06:preload-hint:wrong-body", desc+": the body is not that part's bytes")
			}
		}
	}
}

// r2: requester i continues from the lookup hook until it answers, sleeps, or is stuck in Lock()
func (p *phase) r2(i int, when string) error {
	p.c.release(p.acts[i])
	p.items = append(p.items, fmt.Sprintf("SRun %d%%nat", i))
	wr := p.c.await([]*actor{p.acts[i]}, watchdog)
	switch {
	case wr.ev != nil && wr.ev.actor == i:
		return p.onReqEvent(i, wr.ev.point, when)
	case wr.blocked == "sync.Mutex.Lock":
		p.out[i].Class = "lockblocked"
		return nil
	}
	return fmt.Errorf("requester %d: %+v", i, wr)
}

// settle: after a Broadcast every sleeping requester has been woken; each reports once
// (answers, or reaches its wait hook again), unless it is stuck in Lock().
// extra: also wait for the writer's event with this point ("" = none). Returns once all are in.
func (p *phase) settle(woken []int, writerPoint string, when string) error {
	pending := map[int]bool{}
	for _, i := range woken {
		pending[i] = true
		delete(p.sleeping, i)
		p.out[i].Class = "woken"
	}
	needWriter := writerPoint != ""
	p.deferOracle = true
	mark := len(p.items)
	defer func() {
		// completion events are sent after the handler returned, i.e. after the mutex was
		// released: two requesters can report in the opposite order of their critical sections.
		// That only matters when one of them kept the mutex (the preload-hint closure on a
		// closed stream): whoever answered did so before it, so it goes last.
		var first, last []string
		for _, it := range p.items[mark:] {
			var i int
			if n, _ := fmt.Sscanf(it, "SRun %d%%nat", &i); n == 1 && p.reqs[i].Kind == "path" &&
				p.out[i].Class == "done" && p.out[i].Status == 500 {
				last = append(last, it)
			} else {
				first = append(first, it)
			}
		}
		p.items = append(append(p.items[:mark], first...), last...)
	}()
	defer func() {
		p.deferOracle = false
		for _, f := range p.deferred {
			f()
		}
		p.deferred = nil
	}()
	for len(pending) > 0 || needWriter {
		var watch []*actor
		for i := range pending {
			watch = append(watch, p.acts[i])
		}
		if needWriter {
			watch = nil // the writer is running: only events count
		}
		wr := p.c.await(watch, watchdog)
		switch {
		case wr.ev != nil && wr.ev.actor == -1:
			if strings.HasSuffix(writerPoint, "*") && strings.HasPrefix(wr.ev.point, strings.TrimSuffix(writerPoint, "*")) {
				writerPoint = wr.ev.point
				p.lastWriterPoint = wr.ev.point
			}
			if !needWriter || wr.ev.point != writerPoint {
				return fmt.Errorf("writer: unexpected %q (wanted %q)", wr.ev.point, writerPoint)
			}
			needWriter = false
		case wr.ev != nil:
			i := wr.ev.actor
			if !pending[i] {
				return fmt.Errorf("event from requester %d which was not woken: %q", i, wr.ev.point)
			}
			delete(pending, i)
			p.items = append(p.items, fmt.Sprintf("SRun %d%%nat", i))
			if err := p.onReqEvent(i, wr.ev.point, when); err != nil {
				return err
			}
		case wr.blocked != "":
			for i := range pending {
				if wr.states[i] == "sync.Cond.Wait" {
					// it was not woken at all (no Broadcast reached it): still asleep
					p.out[i].Class = "waiting"
					p.sleeping[i] = true
					p.oracleSoon(i, when+" (not woken)")
				} else {
					p.out[i].Class = "lockblocked"
				}
				delete(pending, i)
			}
		default:
			return fmt.Errorf("settle: %+v pending=%v", wr, pending)
		}
	}
	return nil
}

func (p *phase) sleepers() []int {
	var l []int
	for i := range p.acts {
		if p.sleeping[i] {
			l = append(l, i)
		}
	}
	return l
}

// writer frame, first half: up to the hook between Unlock and Broadcast (or to the return of
// a write that does not rotate). Reports whether a broadcast is pending.
func (p *phase) w1(idr bool) (bool, error) {
	before, err := p.d.snap()
	if err != nil {
		return false, err
	}
	p.cmds <- func() { p.d.writeFrame(idr) }
	wr := p.c.await(nil, watchdog)
	if wr.ev == nil || wr.ev.actor != -1 {
		return false, fmt.Errorf("writer: %+v", wr)
	}
	after, err := p.d.snap()
	if err != nil {
		return false, err
	}
	switch wr.ev.point {
	case "returned":
		ops := observeOps(before, after, nil)
		p.prog = append(p.prog, ops...)
		if len(ops) > 0 {
			p.items = append(p.items, fmt.Sprintf("SW %d%%nat", len(ops)))
		}
		return false, nil
	case "rotateParts:unlocked", "rotateSegments:unlocked":
		ops := observeOps(before, after, []string{wr.ev.point})
		p.prog = append(p.prog, ops...)
		p.items = append(p.items, fmt.Sprintf("SW %d%%nat", len(ops)-1+3))
		p.progress++
		return true, nil
	}
	return false, fmt.Errorf("writer: unexpected hook %q", wr.ev.point)
}

// second half: the Broadcast; every sleeper is woken and settles
func (p *phase) w2(when string) error {
	woken := p.sleepers()
	p.c.release(p.w)
	p.items = append(p.items, "SW 1%nat")
	return p.settle(woken, "returned", when)
}

func (p *phase) caseCoq(pre []wop, finished bool, files string) string {
	var rs, es []string
	for i, rq := range p.reqs {
		rs = append(rs, rq.coq())
		o := &p.out[i]
		stamp := "None"
		if o.Class == "done" && o.Status == 200 && o.Wrote && (o.Pl != nil || rq.Kind == "multi") {
			stamp = fmt.Sprintf("(Some %d)", o.Stamp)
		}
		es = append(es, fmt.Sprintf("{| x_class := %s; x_waits := %d%%nat; x_stamp := %s |}", o.eclass(rq), o.Waits, stamp))
	}
	return fmt.Sprintf("CSched {| h_variant := %s; h_segmentCount := %d; h_nstreams := %d%%nat; h_leading := 0%%nat;\n"+
		"  h_pre := %s;\n  h_prog := %s;\n  h_reqs := [%s];\n  h_sched := [%s];\n  h_exp := [%s];\n"+
		"  h_owner_free := %v; h_finished := %v; h_files_empty := %s |}",
		p.sc.Cfg.Variant, p.sc.Cfg.SegCount, p.sc.Cfg.Streams, wopsCoq(pre), wopsCoq(p.prog),
		strings.Join(rs, "; "), strings.Join(p.items, "; "), strings.Join(es, ";\n    "),
		gohlslib.VerifMutexFree(p.d.m), finished, files)
}

func startPhase(sc scenario, work string, res *result, noCloseHook bool) (*phase, []wop, error) {
	d, err := newDriver(sc.Cfg, work)
	if err != nil {
		return nil, nil, err
	}
	c := newCtl(d.m)
	pre, err := replayHistory(d, c, sc.History)
	if err != nil {
		return nil, nil, err
	}
	p := &phase{sc: sc, d: d, c: c, sleeping: map[int]bool{}, res: res}
	p.w, p.cmds = c.spawnWriter(noCloseHook)
	return p, pre, nil
}

// ---------------- (B) forced schedules around rotations ----------------
// slot of a requester: where its two macro steps (R1 = up to the lookup hook, R2 = the rest)
// fall relative to the writer's W1 (Lock; rotate; Unlock) and W2 (Broadcast) of the first frame:
//
//	0: R1 R2 W1 W2   1: R1 W1 R2 W2   2: R1 W1 W2 R2   3: W1 R1 R2 W2   4: W1 R1 W2 R2   5: W1 W2 R1 R2
func runSched(sc scenario, work string) (res result) {
	p, pre, err := startPhase(sc, work, &res, true)
	if err != nil {
		res.infraErr = err.Error()
		return
	}
	defer cleanup(p.d)
	for _, rq := range sc.Reqs {
		p.addReq(rq)
	}
	fail := func(err error) bool {
		if err != nil && res.infraErr == "" {
			res.infraErr = err.Error()
		}
		return err != nil
	}
	for i, s := range sc.Slots {
		if s <= 2 && fail(p.r1(i)) {
			return
		}
	}
	for i, s := range sc.Slots {
		if s == 0 && fail(p.r2(i, "before the write")) {
			return
		}
	}
	owed := false
	if len(sc.Frames) > 0 {
		owed, err = p.w1(sc.Frames[0])
		if fail(err) {
			return
		}
	}
	for i, s := range sc.Slots {
		if (s == 3 || s == 4) && fail(p.r1(i)) {
			return
		}
	}
	for i, s := range sc.Slots {
		if (s == 1 || s == 3) && fail(p.r2(i, "between Unlock and Broadcast")) {
			return
		}
	}
	if owed && fail(p.w2("after the broadcast of write 1")) {
		return
	}
	for i, s := range sc.Slots {
		if s == 5 && fail(p.r1(i)) {
			return
		}
	}
	for i, s := range sc.Slots {
		if (s == 2 || s == 4 || s == 5) && fail(p.r2(i, "after write 1")) {
			return
		}
	}
	for k, f := range sc.Frames {
		if k == 0 {
			continue
		}
		owed, err = p.w1(f)
		if fail(err) {
			return
		}
		if owed && fail(p.w2(fmt.Sprintf("after the broadcast of write %d", k+1))) {
			return
		}
	}
	res.coq = p.caseCoq(pre, false, "None")
	nwait, ndone := 0, 0
	for _, o := range p.out {
		if o.Waits > 0 {
			nwait++
		}
		if o.Class == "done" {
			ndone++
		}
		res.tags = append(res.tags, "sched:req:"+o.Class)
	}
	res.nontriv = nwait >= 1 && len(p.prog) >= 1
	res.tags = append(res.tags, "sched", fmt.Sprintf("sched:requesters=%d", len(sc.Reqs)))
	close(p.cmds)
	drain(p.d, p.c)
	return
}

// ---------------- F12: a preload-hint request overtaken by the eviction of its part ----------------
func runEvict(sc scenario, work string) (res result) {
	p, pre, err := startPhase(sc, work, &res, true)
	if err != nil {
		res.infraErr = err.Error()
		return
	}
	defer cleanup(p.d)
	i := p.addReq(sc.Reqs[0])
	if err := p.r1(i); err != nil {
		res.infraErr = err.Error()
		return
	}
	for k, f := range sc.Frames {
		owed, err := p.w1(f)
		if err == nil && owed {
			err = p.w2(fmt.Sprintf("after write %d", k+1))
		}
		if err != nil {
			res.infraErr = err.Error()
			return
		}
	}
	if err := p.r2(i, "after later parts (and segments) were completed"); err != nil {
		res.infraErr = err.Error()
		return
	}
	res.coq = p.caseCoq(pre, false, "None")
	res.nontriv = true
	res.tags = append(res.tags, "evict")
	close(p.cmds)
	drain(p.d, p.c)
	return
}

// ---------------- the writer parked INSIDE a part finalize ----------------
// The writer has taken the muxer mutex and is marshalling the part into storage (parked in
// storage.Part.Writer()); the part is not yet published and its URI is still advertised as the
// preload hint. A GET of that URI - dispatched by muxerServer.handle under its own table lock,
// not the muxer mutex - must block (in the hint closure, on the muxer mutex) and then return
// exactly the part's bytes; it may not be answered at once.
// Slots[0]: 0 = the table lookup happened before the writer started, 1 = inside the window.
func runFinalize(sc scenario, work string) (res result) {
	d, err := newDriver(sc.Cfg, work)
	if err != nil {
		res.infraErr = err.Error()
		return
	}
	defer cleanup(d)
	gate := d.wrapStorage() // before any file exists
	c := newCtl(d.m)
	pre, err := replayHistory(d, c, sc.History)
	if err != nil {
		res.infraErr = err.Error()
		return
	}
	p := &phase{sc: sc, d: d, c: c, sleeping: map[int]bool{}, res: &res}
	p.w, p.cmds = c.spawnWriter(true)
	fail := func(err error) bool {
		if err != nil && res.infraErr == "" {
			res.infraErr = err.Error()
		}
		return err != nil
	}
	i := p.addReq(sc.Reqs[0])
	rq := sc.Reqs[0]
	if sc.Slots[0] == 0 && fail(p.r1(i)) {
		return
	}
	// frames until one of them starts a rotation: the writer parks inside the part finalize
	before, err := d.snap()
	if fail(err) {
		return
	}
	gate.arm(sc.GateAt)
	parked := false
	for _, f := range sc.Frames {
		idr := f
		p.cmds <- func() { p.d.writeFrame(idr) }
		wr := p.c.await(nil, watchdog)
		if wr.ev == nil || wr.ev.actor != -1 {
			fail(fmt.Errorf("finalize: writer: %+v", wr))
			return
		}
		if wr.ev.point == "storage:part-writer" {
			parked = true
			break
		}
		if wr.ev.point != "returned" {
			fail(fmt.Errorf("finalize: writer reached %q before any part finalize", wr.ev.point))
			return
		}
	}
	if !parked {
		fail(fmt.Errorf("finalize: no frame of the scenario finalized a part"))
		return
	}
	p.items = append(p.items, "SW 1%nat") // mutex.Lock() of rotateParts / rotateSegments
	if sc.Slots[0] == 1 && fail(p.r1(i)) {
		return
	}
	if fail(p.r2(i, "while the writer is inside the part's finalize")) {
		return
	}
	desc := fmt.Sprintf("GET part %d of stream %d (the advertised preload hint) while the muxer is finalizing that rotation's parts", rq.ID, rq.Stream)
	if o := &p.out[i]; o.Class == "done" {
		// answered although the writer still holds the muxer mutex: only acceptable if it is
		// exactly the (already published) part
		if !(o.Status == 200 && o.Wrote && o.PartID != nil && *o.PartID == rq.ID) {
			res.fail(sc, "C06:preload-hint:answered-at-once-while-part-is-being-finalized", desc+fmt.Sprintf(
				": answered immediately with status %d and %d body bytes instead of blocking until the part is published", o.Status, len(o.Body)))
		}
	} else if o.Class != "lockblocked" {
		fail(fmt.Errorf("finalize: requester is %s while the writer holds the mutex", o.Class))
		return
	}
	// the writer goes on: finalize, publish, Unlock (hook), then the requester gets the mutex
	var pend []int
	if p.out[i].Class == "lockblocked" {
		pend = []int{i} // settle() adds its SRun item when it reports
	}
	p.items = append(p.items, "SW 2%nat") // rotate*Inner, mutex.Unlock()
	p.c.release(p.w)
	p.progress++
	if fail(p.settle(pend, "rotate*", "after the part was published")) {
		return
	}
	after, err := d.snap()
	if fail(err) {
		return
	}
	p.prog = append(p.prog, observeOps(before, after, []string{p.lastWriterPoint})...)
	p.c.release(p.w)
	p.items = append(p.items, "SW 1%nat")
	if fail(p.settle(nil, "returned", "")) {
		return
	}
	if o := &p.out[i]; !(o.Class == "done" && o.Status == 200 && o.Wrote && o.PartID != nil && *o.PartID == rq.ID) &&
		len(res.fails) == 0 {
		res.fail(sc, "C06:preload-hint:not-the-part-after-publication", desc+fmt.Sprintf(": after the part was published the request is %s (status %d, %d bytes)", o.Class, o.Status, len(o.Body)))
	}
	res.coq = p.caseCoq(pre, false, "None")
	res.nontriv = true
	res.tags = append(res.tags, "finalize", fmt.Sprintf("finalize:lookup-in-window=%v", sc.Slots[0] == 1), "finalize:"+p.lastWriterPoint)
	close(p.cmds)
	drain(p.d, p.c)
	return
}

// ---------------- (C) Close with pending requests ----------------
func kindOf(rq areq) string {
	switch rq.Kind {
	case "multi":
		return "multivariant"
	case "media":
		if classifyMedia(rq.Query).ok {
			return "blocking-reload"
		}
		return "media-playlist"
	default:
		return "preload-hint"
	}
}

func runClose(sc scenario, work string) (res result) {
	p, pre, err := startPhase(sc, work, &res, sc.Order == "free")
	if err != nil {
		res.infraErr = err.Error()
		return
	}
	defer cleanup(p.d)
	fail := func(err error) bool {
		if err != nil && res.infraErr == "" {
			res.infraErr = err.Error()
		}
		return err != nil
	}
	for _, rq := range sc.Reqs {
		i := p.addReq(rq)
		if fail(p.r1(i)) || fail(p.r2(i, "before Close")) {
			return
		}
	}
	pendingAtClose := p.sleepers()
	pendingOrig := append([]int{}, pendingAtClose...)
	snap, err := p.d.snap() // before Close: afterwards the muxer mutex may be gone for good (F1)
	if fail(err) {
		return
	}
	nstreams := sc.Cfg.Streams
	if sc.Cfg.Variant == "MPEGTS" {
		nstreams = 1
	}
	p.prog = append(p.prog, wop{K: "Close"})
	p.cmds <- func() { p.d.m.Close() }
	switch sc.Order {
	case "recheck-first":
		// Close is parked after its broadcast; every woken waiter re-checks now
		p.items = append(p.items, "SW 4%nat")
		if fail(p.settle(pendingAtClose, "close:broadcasted", "woken by Close, stream not yet marked closed")) {
			return
		}
		p.c.release(p.w)
		p.items = append(p.items, fmt.Sprintf("SW %d%%nat", nstreams+1))
		if fail(p.settle(nil, "returned", "")) {
			return
		}
	case "first-parked":
		// the first woken waiter re-checks and is held at its wait hook WITH the mutex; the
		// others queue on the mutex; Close finishes; then they all go on
		p.items = append(p.items, "SW 4%nat")
		var first *event
		gotHook := false
		for !gotHook || (first == nil && len(pendingAtClose) > 0) {
			var watch []*actor
			if gotHook { // Close is parked: only the woken requesters can still move
				for _, i := range pendingAtClose {
					watch = append(watch, p.acts[i])
				}
			}
			wr := p.c.await(watch, watchdog)
			if wr.ev == nil && wr.blocked == "sync.Mutex.Lock" {
				// everybody left is queued on a mutex that somebody kept: nobody will re-check
				for _, i := range pendingAtClose {
					p.out[i].Class = "lockblocked"
					delete(p.sleeping, i)
				}
				pendingAtClose = nil
				break
			}
			if wr.ev == nil {
				fail(fmt.Errorf("close first-parked: %+v", wr))
				return
			}
			if wr.ev.actor == -1 {
				if wr.ev.point != "close:broadcasted" {
					fail(fmt.Errorf("writer: %q", wr.ev.point))
					return
				}
				gotHook = true
				continue
			}
			if first != nil {
				fail(fmt.Errorf("second requester event %+v while the first holds the mutex", wr.ev))
				return
			}
			e := *wr.ev
			first = &e
			if e.point == "done" {
				// it answered (multivariant handler): no mutex is held; handle and pick another
				p.items = append(p.items, fmt.Sprintf("SRun %d%%nat", e.actor))
				if fail(p.onReqEvent(e.actor, e.point, "woken by Close")) {
					return
				}
				var rest []int
				for _, i := range pendingAtClose {
					if i != e.actor {
						rest = append(rest, i)
					}
				}
				pendingAtClose = rest
				first = nil
			}
		}
		rest := []int{}
		for _, i := range pendingAtClose {
			if first == nil || i != first.actor {
				rest = append(rest, i)
			}
		}
		// Close goes on while the first waiter holds the mutex at its wait hook
		p.c.release(p.w)
		if first != nil {
			p.items = append(p.items, fmt.Sprintf("SRun %d%%nat", first.actor))
		}
		p.items = append(p.items, fmt.Sprintf("SW %d%%nat", nstreams+1))
		wr := p.c.await(nil, watchdog)
		if wr.ev == nil || wr.ev.actor != -1 || wr.ev.point != "returned" {
			fail(fmt.Errorf("close did not return while a waiter holds the mutex: %+v", wr))
			return
		}
		if first != nil {
			delete(p.sleeping, first.actor)
			if fail(p.onReqEvent(first.actor, first.point, "woken by Close, stream not yet marked closed")) {
				return
			}
		}
		if fail(p.settle(rest, "", "woken by Close, after Close returned")) {
			return
		}
	case "free":
		// Close runs to the end while the woken waiters race with it; the observed outcome
		// tells which side of stream.close() each re-check fell on
		mark := len(p.items)
		if fail(p.settle(pendingAtClose, "returned", "woken by Close (free run)")) {
			return
		}
		var before, after []string
		for _, it := range p.items[mark:] {
			var i int
			fmt.Sscanf(it, "SRun %d%%nat", &i)
			if p.out[i].Class == "waiting" {
				before = append(before, it)
			} else {
				after = append(after, it)
			}
		}
		p.items = append(p.items[:mark], "SW 4%nat")
		p.items = append(p.items, before...)
		p.items = append(p.items, fmt.Sprintf("SW %d%%nat", nstreams+1))
		p.items = append(p.items, after...)
	}
	// ---- after Close returned ----
	wasPending := map[int]bool{}
	for _, i := range pendingOrig {
		wasPending[i] = true
	}
	// later requests of every kind
	if sc.PostProbes {
		probes := []areq{{Kind: "multi"}, {Kind: "media", Stream: 0}}
		if sc.Cfg.Variant == "LL" {
			probes = append(probes, areq{Kind: "media", Stream: 0, Query: []qitem{{K: "_HLS_msn", V: fmt.Sprint(snap.Streams[0].NextSegmentID)}}})
			if snap.Streams[0].NextPartID > 0 {
				probes = append(probes, areq{Kind: "path", Stream: 0, PKind: "part", ID: uint64(snap.Streams[0].NextPartID)})
			}
		}
		if sc.Cfg.Streams == 2 && sc.Cfg.Variant != "MPEGTS" {
			probes = append(probes, areq{Kind: "media", Stream: 1})
		}
		for _, rq := range probes {
			i := p.addReq(rq)
			if fail(p.r1(i)) || fail(p.r2(i, "after Close")) {
				return
			}
		}
	}
	mutexFree := gohlslib.VerifMutexFree(p.d.m)
	serverFree := gohlslib.VerifServerMutexFree(p.d.m)
	filesEmpty := "None"
	dirLeft := []string{}
	if p.d.dir != "" {
		ents, _ := os.ReadDir(p.d.dir)
		for _, e := range ents {
			dirLeft = append(dirLeft, e.Name())
		}
		filesEmpty = fmt.Sprintf("(Some %v)", len(dirLeft) == 0)
	}
	res.coq = p.caseCoq(pre, true, filesEmpty)
	// ---- oracle-only probes (outside the model, which has no failing reader): URIs a client learnt from a playlist
	// fetched BEFORE Close - completed parts, listed segments, the init - requested AFTER Close returned. Each must
	// return (any status) and must not panic (round 10: C07-m14, deferred r.Close() on a nil reader once Close has
	// removed the files from Directory) ----
	if sc.PostProbes {
		var late []areq
		for k := range snap.Streams {
			st := snap.Streams[k]
			if sc.Cfg.Variant == "LL" {
				for id := int64(st.NextPartID) - 1; id >= 0 && id >= int64(st.NextPartID)-4; id-- {
					late = append(late, areq{Kind: "path", Stream: k, PKind: "part", ID: uint64(id)})
				}
			}
			for id := int64(st.NextSegmentID) - 1; id >= 0 && id >= int64(st.NextSegmentID)-3; id-- {
				late = append(late, areq{Kind: "path", Stream: k, PKind: "seg", ID: uint64(id)})
			}
		}
		for _, rq := range late {
			target := p.d.target(rq)
			type lateRes struct {
				status int
				pan    string
			}
			ch := make(chan lateRes, 1)
			go func() {
				w := &respWriter{rec: httptest.NewRecorder()}
				defer func() {
					if e := recover(); e != nil {
						ch <- lateRes{pan: fmt.Sprint(e)}
					}
				}()
				p.d.m.Handle(w, httptest.NewRequest(http.MethodGet, target, nil))
				ch <- lateRes{status: w.rec.Code}
			}()
			select {
			case lr := <-ch:
				if lr.pan != "" {
					res.fail(sc, "C07:later-request-panics:"+rq.PKind, fmt.Sprintf("GET %s after Close returned panicked inside Muxer.Handle: %s", target, lr.pan))
				}
			case <-time.After(20 * time.Second):
				res.fail(sc, "C07:later-request-hangs:"+rq.PKind, fmt.Sprintf("GET %s after Close returned did not return within 20 s", target))
			}
		}
	}
	// ---- property oracle (from the property text) ----
	inside := false
	for i := range p.out {
		if c := p.out[i].Class; c == "lookedup" || c == "woken" {
			inside = true
		}
	}
	if !mutexFree && !inside {
		// every handler has returned or is parked in Lock()/Wait(): who holds the mutex?
		who := "?"
		for i, o := range p.out {
			if p.reqs[i].Kind == "path" && o.Class == "done" && o.Status == 500 {
				who = fmt.Sprintf("requester %d (preload hint of part %d) returned 500", i, p.reqs[i].ID)
			}
		}
		res.fail(sc, "C07:preload-hint:closed-exit:mutex-held",
			"after Close returned and every handler returned or is parked, the muxer mutex is still held: "+who)
	}
	if !serverFree && !inside {
		res.fail(sc, "C07:path-table-lock-held", "after Close returned and every handler returned or is parked, the lock of the path table (muxerServer.mutex) is still held")
	}
	for i, o := range p.out {
		k := kindOf(p.reqs[i])
		role := "later request"
		if i < len(sc.Reqs) {
			role = "pending request"
		}
		switch {
		case o.Class == "waiting":
			sig := "C07:stream-closed-after-broadcast:" + k + ":sleeps-forever"
			if i >= len(sc.Reqs) {
				sig = "C07:later-request-waits:" + k
			}
			res.fail(sc, sig, fmt.Sprintf("%s %d (%s) is asleep in cond.Wait() after Close returned; nobody will broadcast again (it slept %d times)", role, i, k, o.Waits))
		case o.Class == "lockblocked":
			if mutexFree {
				res.fail(sc, "C07:stuck-in-lock:"+k, fmt.Sprintf("%s %d (%s) is parked in mutex.Lock()", role, i, k))
			} // else: consequence of the leaked mutex reported above
		case o.Class == "done" && wasPending[i] && o.Status == 200:
			res.fail(sc, "C07:pending-request-answered-200:"+k, fmt.Sprintf("pending request %d (%s) completed with 200 after Close", i, k))
		case o.Class != "done":
			res.fail(sc, "C07:request-not-complete:"+k, fmt.Sprintf("%s %d (%s) is %s after Close returned", role, i, k, o.Class))
		}
	}
	if len(dirLeft) > 0 {
		res.fail(sc, "C07:files-left-in-directory", fmt.Sprintf("after Close, Directory still holds %v", dirLeft))
	}
	res.nontriv = len(pendingOrig) >= 1
	res.tags = append(res.tags, "close", "close:order="+sc.Order, fmt.Sprintf("close:pending=%d", len(pendingOrig)),
		"close:variant="+sc.Cfg.Variant)
	for _, i := range pendingOrig {
		res.tags = append(res.tags, "close:pending-kind="+kindOf(p.reqs[i]))
	}
	close(p.cmds)
	return
}

// locksOracle: once every requester has returned (or is parked in Wait), no internal lock may be held.
func (p *phase) locksOracle(when string) {
	for i := range p.out {
		if c := p.out[i].Class; c == "lookedup" || c == "woken" || c == "lockblocked" {
			return
		}
	}
	if !gohlslib.VerifServerMutexFree(p.d.m) {
		p.res.fail(p.sc, "C07:path-table-lock-held", when+": every handler has returned, yet the lock of the path table (muxerServer.mutex) is still held")
	}
	if !gohlslib.VerifMutexFree(p.d.m) {
		p.res.fail(p.sc, "C07:muxer-mutex-held", when+": every handler has returned, yet the muxer mutex is still held")
	}
}

// closeFromWriter runs Muxer.Close on the writer goroutine (its close hook passes through) and
// settles the requesters that were asleep. Model: SW 4, the woken ones, SW n+1 (flags are set
// before the broadcast, so the order of re-checks and stream.close() does not matter).
func (p *phase) closeFromWriter() error {
	pending := p.sleepers()
	nstreams := p.sc.Cfg.Streams
	if p.sc.Cfg.Variant == "MPEGTS" {
		nstreams = 1
	}
	p.prog = append(p.prog, wop{K: "Close"})
	p.cmds <- func() { p.d.m.Close() }
	p.items = append(p.items, "SW 4%nat")
	if err := p.settle(pending, "returned", "woken by Close"); err != nil {
		return err
	}
	p.items = append(p.items, fmt.Sprintf("SW %d%%nat", nstreams+1))
	return nil
}

func dirEntries(dir string) []string {
	var l []string
	if dir != "" {
		ents, _ := os.ReadDir(dir)
		for _, e := range ents {
			l = append(l, e.Name())
		}
	}
	return l
}

// ---------------- Close after a preload-hint request found its part evicted ----------------
// The request is parked after the table lookup, SegmentCount+2 segment rotations evict its part,
// it resumes (404): every lock must be free again; one more rotation and Close must go through.
func runEvictClose(sc scenario, work string) (res result) {
	p, pre, err := startPhase(sc, work, &res, true)
	if err != nil {
		res.infraErr = err.Error()
		return
	}
	defer cleanup(p.d)
	fail := func(err error) bool {
		if err != nil && res.infraErr == "" {
			res.infraErr = err.Error()
		}
		return err != nil
	}
	i := p.addReq(sc.Reqs[0])
	if fail(p.r1(i)) {
		return
	}
	for k, f := range sc.Frames {
		owed, err := p.w1(f)
		if err == nil && owed {
			err = p.w2(fmt.Sprintf("after write %d", k+1))
		}
		if fail(err) {
			return
		}
	}
	if fail(p.r2(i, "after the part's segment left the window")) {
		return
	}
	p.locksOracle("after the preload-hint request whose part was evicted returned")
	res.tags = append(res.tags, "evictclose", "evictclose:order="+sc.Order)
	if len(res.fails) > 0 {
		// a lock is held for good: the next rotation / Close would block for ever
		res.nontriv = true
		close(p.cmds)
		return
	}
	if sc.Order == "continue" {
		owed, err := p.w1(true)
		if err == nil && owed {
			err = p.w2("after one more rotation")
		}
		if fail(err) {
			return
		}
	}
	if fail(p.closeFromWriter()) {
		return
	}
	p.locksOracle("after Close returned")
	left := dirEntries(p.d.dir)
	filesEmpty := "None"
	if p.d.dir != "" {
		filesEmpty = fmt.Sprintf("(Some %v)", len(left) == 0)
		if len(left) > 0 {
			res.fail(sc, "C07:files-left-in-directory", fmt.Sprintf("after Close, Directory still holds %v", left))
		}
	}
	res.coq = p.caseCoq(pre, true, filesEmpty)
	res.nontriv = true
	close(p.cmds)
	return
}

// ---------------- Close after a segment rotation whose init generation failed ----------------
// The H264 track has no out-of-band parameters and no PPS ever arrives: the first segment rotation
// returns an error. Whatever that rotation left behind, Close must release the pending requests
// (non-200), later requests must return, no lock may stay held and Directory must be empty.
// The model has no failing rotation (its writer operations never fail): harness oracle only.
func runInitFail(sc scenario, work string) (res result) {
	d, err := newDriver(sc.Cfg, work)
	if err != nil {
		res.infraErr = err.Error()
		return
	}
	defer cleanup(d)
	c := newCtl(d.m)
	p := &phase{sc: sc, d: d, c: c, sleeping: map[int]bool{}, res: &res}
	p.w, p.cmds = c.spawnWriter(true)
	fail := func(err error) bool {
		if err != nil && res.infraErr == "" {
			res.infraErr = err.Error()
		}
		return err != nil
	}
	for _, rq := range sc.Reqs {
		i := p.addReq(rq)
		if fail(p.r1(i)) || fail(p.r2(i, "before the failing rotation")) {
			return
		}
	}
	pendingOrig := p.sleepers()
	// writes until one fails (hooks of this goroutine pass through: it is not an actor)
	var werr error
	for k := 0; k < len(sc.History) && werr == nil; k++ {
		werr = d.writeFrame(sc.History[k])
	}
	if werr == nil {
		res.infraErr = "initfail: no write failed"
		return
	}
	created := len(dirEntries(d.dir))
	// a failed rotation broadcasts nothing; whoever is woken later is woken by Close
	done := make(chan struct{})
	go func() { d.m.Close(); close(done) }()
	select {
	case <-done:
	case <-time.After(watchdog):
		res.fail(sc, "C07:close-does-not-return:after-failed-init-generation", "Close did not return within the watchdog after a rotation whose init generation failed")
		return
	}
	if fail(p.settle(pendingOrig, "", "woken by Close after the failed rotation")) {
		return
	}
	probes := []areq{{Kind: "multi"}, {Kind: "media", Stream: 0}}
	for _, rq := range probes {
		i := p.addReq(rq)
		if fail(p.r1(i)) || fail(p.r2(i, "after Close")) {
			return
		}
	}
	p.locksOracle("after Close returned (failed init generation before)")
	for i, o := range p.out {
		k := kindOf(p.reqs[i])
		switch {
		case o.Class != "done":
			res.fail(sc, "C07:request-not-complete:"+k, fmt.Sprintf("request %d (%s) is %s after Close returned (failed init generation before)", i, k, o.Class))
		case i < len(sc.Reqs) && o.Status == 200:
			res.fail(sc, "C07:pending-request-answered-200:"+k, fmt.Sprintf("pending request %d (%s) completed with 200 after Close", i, k))
		}
	}
	if left := dirEntries(d.dir); len(left) > 0 {
		res.fail(sc, "C07:files-left-in-directory:after-failed-init-generation",
			fmt.Sprintf("a segment rotation failed while generating the init file (%v); after Close, Directory still holds %v", werr, left))
	}
	res.nontriv = true
	res.tags = append(res.tags, "initfail", "initfail:variant="+sc.Cfg.Variant, fmt.Sprintf("initfail:pending=%d", len(pendingOrig)),
		fmt.Sprintf("initfail:files-created=%v", created > 0))
	close(p.cmds)
	return
}
