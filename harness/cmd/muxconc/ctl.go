package main

import (
	"bytes"
	"fmt"
	"net/http"
	"net/http/httptest"
	"regexp"
	"runtime"
	"strconv"
	"sync"
	"sync/atomic"
	"time"

	gohlslib "github.com/bluenviron/gohlslib/v2"
)

// ---- goroutine identity and state (no timing: read off the runtime's own bookkeeping) ----

func goid() uint64 {
	var buf [64]byte
	n := runtime.Stack(buf[:], false)
	// "goroutine 123 [running]:"
	s := buf[:n]
	s = s[len("goroutine "):]
	i := bytes.IndexByte(s, ' ')
	id, _ := strconv.ParseUint(string(s[:i]), 10, 64)
	return id
}

var reGo = regexp.MustCompile(`(?m)^goroutine (\d+) \[([^\],]+)`)

// gstates returns the scheduler state of every goroutine ("sync.Cond.Wait", "sync.Mutex.Lock",
// "chan receive", "runnable", ...).
func gstates() map[uint64]string {
	buf := make([]byte, 1<<20)
	for {
		n := runtime.Stack(buf, true)
		if n < len(buf) {
			buf = buf[:n]
			break
		}
		buf = make([]byte, 2*len(buf))
	}
	out := map[uint64]string{}
	for _, m := range reGo.FindAllSubmatch(buf, -1) {
		id, _ := strconv.ParseUint(string(m[1]), 10, 64)
		out[id] = string(m[2])
	}
	return out
}

// ---- responses ----

type respWriter struct {
	rec   *httptest.ResponseRecorder
	wrote bool
}

func (w *respWriter) Header() http.Header { return w.rec.Header() }
func (w *respWriter) Write(b []byte) (int, error) {
	w.wrote = true
	return w.rec.Write(b)
}
func (w *respWriter) WriteHeader(c int) {
	w.wrote = true
	w.rec.WriteHeader(c)
}

type response struct {
	Status int    // 200 when the handler wrote nothing (what net/http would send)
	Wrote  bool   // the handler wrote a header or a body
	Body   []byte // response body
}

// ---- the controller ----

type actor struct {
	id      int // >= 0 requester index, -1 writer
	gid     uint64
	resume  chan struct{}
	resp    *response
	skipLU  bool // do not park at server:looked-up
	noClose bool // do not park at close:broadcasted
}

type event struct {
	actor int
	point string // hook point, "done" (requester returned), "returned" (writer command done)
}

type ctl struct {
	mu    sync.Mutex
	byGid map[uint64]*actor
	ev    chan event
	m     *gohlslib.Muxer
	// observation of a non-actor writer (sequential phases)
	seqGid    uint64
	seqEvents []string
}

var curCtl atomic.Pointer[ctl]

func installHook() {
	gohlslib.VerifSetHook(func(point string) {
		c := curCtl.Load()
		if c == nil {
			return
		}
		gid := goid()
		c.mu.Lock()
		a := c.byGid[gid]
		if a == nil {
			if gid == c.seqGid {
				c.seqEvents = append(c.seqEvents, point)
			}
			c.mu.Unlock()
			return
		}
		c.mu.Unlock()
		if point == "server:looked-up" && a.skipLU {
			return
		}
		if point == "close:broadcasted" && a.noClose {
			return
		}
		c.ev <- event{a.id, point}
		<-a.resume
	})
}

func newCtl(m *gohlslib.Muxer) *ctl {
	c := &ctl{byGid: map[uint64]*actor{}, ev: make(chan event, 64), m: m, seqGid: goid()}
	curCtl.Store(c)
	return c
}

// spawnReq starts a requester goroutine parked before muxerServer.handle.
func (c *ctl) spawnReq(id int, target string, skipLU bool) *actor {
	a := &actor{id: id, resume: make(chan struct{}), skipLU: skipLU}
	ready := make(chan struct{})
	go func() {
		a.gid = goid()
		c.mu.Lock()
		c.byGid[a.gid] = a
		c.mu.Unlock()
		close(ready)
		<-a.resume
		req := httptest.NewRequest(http.MethodGet, target, nil)
		w := &respWriter{rec: httptest.NewRecorder()}
		c.m.Handle(w, req)
		st := w.rec.Code
		a.resp = &response{Status: st, Wrote: w.wrote, Body: w.rec.Body.Bytes()}
		c.ev <- event{a.id, "done"}
	}()
	<-ready
	return a
}

// spawnWriter starts the writer goroutine: it executes commands one at a time.
func (c *ctl) spawnWriter(noClose bool) (*actor, chan func()) {
	a := &actor{id: -1, resume: make(chan struct{}), noClose: noClose}
	cmds := make(chan func())
	ready := make(chan struct{})
	go func() {
		a.gid = goid()
		c.mu.Lock()
		c.byGid[a.gid] = a
		c.mu.Unlock()
		close(ready)
		for f := range cmds {
			f()
			c.ev <- event{-1, "returned"}
		}
	}()
	<-ready
	return a, cmds
}

type waitResult struct {
	ev      *event
	blocked string // "sync.Mutex.Lock" / "sync.Cond.Wait": the watched goroutines are all parked there
	hang    bool   // watchdog
}

// await waits for the next event. While waiting it inspects the scheduler state of the
// watched goroutines: when every one of them sits in sync.Mutex.Lock / sync.Cond.Wait and no
// event is pending, no event can come any more (every other controlled goroutine is parked by
// the controller), which is reported as "blocked" - no timeout is involved in that inference.
// The watchdog only bounds the wait for a goroutine that stays runnable.
func (c *ctl) await(watch []*actor, watchdog time.Duration) waitResult {
	deadline := time.Now().Add(watchdog)
	stable := 0
	spins := 0
	for {
		select {
		case e := <-c.ev:
			return waitResult{ev: &e}
		default:
		}
		runtime.Gosched()
		spins++
		if spins < 400 {
			continue // the event normally arrives within microseconds
		}
		if len(watch) > 0 {
			st := gstates()
			all := true
			kind := ""
			for _, a := range watch {
				s := st[a.gid]
				if s == "sync.Mutex.Lock" || s == "sync.Cond.Wait" {
					kind = s
				} else {
					all = false
				}
			}
			if all && len(c.ev) == 0 {
				stable++
				if stable >= 3 {
					return waitResult{blocked: kind}
				}
			} else {
				stable = 0
			}
		}
		if time.Now().After(deadline) {
			return waitResult{hang: true}
		}
		time.Sleep(50 * time.Microsecond)
	}
}

func (c *ctl) release(a *actor) { a.resume <- struct{}{} }

// intoWait lets a requester parked at a wait:* hook (mutex held) continue into cond.Wait()
// and returns once the runtime reports the goroutine parked in sync.Cond.Wait: it is then on
// the notify list (notifyListAdd precedes the park) and has released the mutex.
func (c *ctl) intoWait(a *actor) error {
	c.release(a)
	deadline := time.Now().Add(10 * time.Second)
	for {
		runtime.Gosched()
		if gstates()[a.gid] == "sync.Cond.Wait" {
			return nil
		}
		if time.Now().After(deadline) {
			return fmt.Errorf("requester %d did not reach cond.Wait after its wait hook", a.id)
		}
	}
}
