package main

import (
	"bytes"
	"fmt"
	"net/http"
	"net/http/httptest"
	"runtime"
	"strconv"
	"sync"
	"sync/atomic"
	"time"

	gohlslib "github.com/bluenviron/gohlslib/v2"
)

// ---- goroutine identity and state (no timing: read off the runtime's own bookkeeping) ----

func goid() uint64 {
	var buf [64]byte
	n := runtime.Stack(buf[:], false)
	// "goroutine 123 [running]:"
	s := buf[:n]
	s = s[len("goroutine "):]
	i := bytes.IndexByte(s, ' ')
	id, _ := strconv.ParseUint(string(s[:i]), 10, 64)
	return id
}

var stackBuf = make([]byte, 1<<20)

// gstates returns the scheduler state of every goroutine ("sync.Cond.Wait", "sync.Mutex.Lock",
// "chan receive", "runnable", ...).
func gstates() map[uint64]string {
	for {
		n := runtime.Stack(stackBuf, true)
		if n < len(stackBuf) {
			return parseStates(stackBuf[:n])
		}
		stackBuf = make([]byte, 2*len(stackBuf))
	}
}

func parseStates(buf []byte) map[uint64]string {
	out := map[uint64]string{}
	key := []byte("goroutine ")
	for i := 0; i < len(buf); {
		if !(i == 0 || buf[i-1] == '\n') || !bytes.HasPrefix(buf[i:], key) {
			j := bytes.IndexByte(buf[i:], '\n')
			if j < 0 {
				break
			}
			i += j + 1
			continue
		}
		p := i + len(key)
		var id uint64
		for p < len(buf) && buf[p] >= '0' && buf[p] <= '9' {
			id = id*10 + uint64(buf[p]-'0')
			p++
		}
		// " [state, ...]:" or " gp=... [state]:"
		q := bytes.IndexByte(buf[p:], '[')
		e := bytes.IndexByte(buf[p:], '\n')
		if q >= 0 && (e < 0 || q < e) {
			st := buf[p+q+1:]
			k := 0
			for k < len(st) && st[k] != ']' && st[k] != ',' {
				k++
			}
			out[id] = string(st[:k])
		}
		if e < 0 {
			break
		}
		i = p + e + 1
	}
	return out
}

// ---- responses ----

type respWriter struct {
	rec   *httptest.ResponseRecorder
	wrote bool
}

func (w *respWriter) Header() http.Header { return w.rec.Header() }
func (w *respWriter) Write(b []byte) (int, error) {
	w.wrote = true
	return w.rec.Write(b)
}
func (w *respWriter) WriteHeader(c int) {
	w.wrote = true
	w.rec.WriteHeader(c)
}

type response struct {
	Status int    // 200 when the handler wrote nothing (what net/http would send)
	Wrote  bool   // the handler wrote a header or a body
	Body   []byte // response body
}

// ---- the controller ----

type actor struct {
	id      int // >= 0 requester index, -1 writer
	gid     uint64
	resume  chan struct{}
	resp    *response
	skipLU  bool // do not park at server:looked-up
	noClose bool // do not park at close:broadcasted
}

type event struct {
	actor int
	point string // hook point, "done" (requester returned), "returned" (writer command done)
}

type ctl struct {
	drain atomic.Bool // every hook passes through (used to flush pending requests at the end)
	mu    sync.Mutex
	byGid map[uint64]*actor
	ev    chan event
	m     *gohlslib.Muxer
	// observation of a non-actor writer (sequential phases)
	seqGid    uint64
	seqEvents []string
}

var curCtl atomic.Pointer[ctl]

func installHook() { gohlslib.VerifSetHook(dispatchHook) }

// dispatchHook is the yield point: a controlled goroutine reports where it is and parks until the
// controller releases it. It is called by the verif hooks of /repo and by the storage gate.
func dispatchHook(point string) {
	{
		c := curCtl.Load()
		if c == nil || c.drain.Load() {
			return
		}
		gid := goid()
		c.mu.Lock()
		a := c.byGid[gid]
		if a == nil {
			if gid == c.seqGid {
				c.seqEvents = append(c.seqEvents, point)
			}
			c.mu.Unlock()
			return
		}
		c.mu.Unlock()
		if point == "server:looked-up" && a.skipLU {
			return
		}
		if point == "close:broadcasted" && a.noClose {
			return
		}
		c.ev <- event{a.id, point}
		<-a.resume
	}
}

func newCtl(m *gohlslib.Muxer) *ctl {
	c := &ctl{byGid: map[uint64]*actor{}, ev: make(chan event, 1024), m: m, seqGid: goid()}
	curCtl.Store(c)
	return c
}

// spawnReq starts a requester goroutine parked before muxerServer.handle.
func (c *ctl) spawnReq(id int, target string, skipLU bool) *actor {
	a := &actor{id: id, resume: make(chan struct{}), skipLU: skipLU}
	ready := make(chan struct{})
	go func() {
		a.gid = goid()
		c.mu.Lock()
		c.byGid[a.gid] = a
		c.mu.Unlock()
		close(ready)
		<-a.resume
		req := httptest.NewRequest(http.MethodGet, target, nil)
		w := &respWriter{rec: httptest.NewRecorder()}
		c.m.Handle(w, req)
		st := w.rec.Code
		a.resp = &response{Status: st, Wrote: w.wrote, Body: w.rec.Body.Bytes()}
		c.ev <- event{a.id, "done"}
	}()
	<-ready
	return a
}

// spawnWriter starts the writer goroutine: it executes commands one at a time.
func (c *ctl) spawnWriter(noClose bool) (*actor, chan func()) {
	a := &actor{id: -1, resume: make(chan struct{}), noClose: noClose}
	cmds := make(chan func())
	ready := make(chan struct{})
	go func() {
		a.gid = goid()
		c.mu.Lock()
		c.byGid[a.gid] = a
		c.mu.Unlock()
		close(ready)
		for f := range cmds {
			f()
			c.ev <- event{-1, "returned"}
		}
	}()
	<-ready
	return a, cmds
}

type waitResult struct {
	ev      *event
	blocked string         // "sync.Mutex.Lock" / "sync.Cond.Wait": the watched goroutines are all parked there
	states  map[int]string // per watched actor, when blocked
	hang    bool           // watchdog
}

// await waits for the next event. While waiting it inspects the scheduler state of the
// watched goroutines: when every one of them sits in sync.Mutex.Lock / sync.Cond.Wait and no
// event is pending, no event can come any more (every other controlled goroutine is parked by
// the controller), which is reported as "blocked" - no timeout is involved in that inference.
// The watchdog only bounds the wait for a goroutine that stays runnable.
func (c *ctl) await(watch []*actor, watchdog time.Duration) waitResult {
	deadline := time.Now().Add(watchdog)
	stable := 0
	spins := 0
	for {
		select {
		case e := <-c.ev:
			return waitResult{ev: &e}
		default:
		}
		runtime.Gosched()
		spins++
		if spins < 400 {
			continue // the event normally arrives within microseconds
		}
		if len(watch) > 0 {
			st := gstates()
			all := true
			kind := ""
			per := map[int]string{}
			for _, a := range watch {
				s := st[a.gid]
				per[a.id] = s
				if s == "sync.Mutex.Lock" || s == "sync.Cond.Wait" {
					if kind == "" || s == "sync.Mutex.Lock" {
						kind = s
					}
				} else {
					all = false
				}
			}
			if all && len(c.ev) == 0 {
				stable++
				if stable >= 3 {
					return waitResult{blocked: kind, states: per}
				}
			} else {
				stable = 0
			}
		}
		if time.Now().After(deadline) {
			return waitResult{hang: true}
		}
		time.Sleep(50 * time.Microsecond)
	}
}

func (c *ctl) release(a *actor) { a.resume <- struct{}{} }

// intoWait lets a requester parked at a wait:* hook (mutex held) continue into cond.Wait()
// and returns once the runtime reports the goroutine parked in sync.Cond.Wait: it is then on
// the notify list (notifyListAdd precedes the park) and has released the mutex.
func (c *ctl) intoWait(a *actor) error {
	c.release(a)
	deadline := time.Now().Add(10 * time.Second)
	for n := 0; ; n++ {
		runtime.Gosched()
		// it held the mutex at the hook: a free mutex means it has unlocked inside cond.Wait()
		if gohlslib.VerifMutexFree(c.m) {
			return nil
		}
		// another woken requester may have taken the mutex at once: ask the runtime
		if n%200 == 199 && gstates()[a.gid] == "sync.Cond.Wait" {
			return nil
		}
		if time.Now().After(deadline) {
			return fmt.Errorf("requester %d did not reach cond.Wait after its wait hook", a.id)
		}
	}
}
