package main

import (
	"fmt"
	"net/url"
	"regexp"
	"strconv"
	"strings"
)

// ---- abstract queries (mirror of Model/MuxConcSeq.v qitem) ----

type qitem struct {
	K   string `json:"k,omitempty"`
	V   string `json:"v,omitempty"`
	Bad bool   `json:"bad,omitempty"`
}

const badToken = "a;b" // url.ParseQuery: "invalid semicolon separator in query"

func rawQuery(q []qitem) string {
	var parts []string
	for _, it := range q {
		if it.Bad {
			parts = append(parts, badToken)
		} else {
			parts = append(parts, url.QueryEscape(it.K)+"="+url.QueryEscape(it.V))
		}
	}
	return strings.Join(parts, "&")
}

// parseRaw canonicalises the query of an emitted URI back into abstract tokens.
func parseRaw(raw string) ([]qitem, error) {
	if raw == "" {
		return nil, nil
	}
	var out []qitem
	for _, tok := range strings.Split(raw, "&") {
		if tok == badToken {
			out = append(out, qitem{Bad: true})
			continue
		}
		kv := strings.SplitN(tok, "=", 2)
		if len(kv) != 2 {
			return nil, fmt.Errorf("token %q", tok)
		}
		k, err1 := url.QueryUnescape(kv[0])
		v, err2 := url.QueryUnescape(kv[1])
		if err1 != nil || err2 != nil {
			return nil, fmt.Errorf("token %q", tok)
		}
		out = append(out, qitem{K: k, V: v})
	}
	return out, nil
}

func qcoq(q []qitem) string {
	var s []string
	for _, it := range q {
		if it.Bad {
			s = append(s, "QBad")
		} else {
			s = append(s, "QPair "+cstr(it.K)+" "+cstr(it.V))
		}
	}
	return "[" + strings.Join(s, "; ") + "]"
}

func cstr(s string) string {
	return "\"" + strings.ReplaceAll(s, "\"", "\"\"") + "\"%string"
}

// ---- abstract playlists (mirror of Model/MuxConcSeq.v playlist) ----

type plentry struct {
	Gap   bool     `json:"gap,omitempty"`
	ID    int64    `json:"id"`
	Dur   int64    `json:"dur"` // ns, from the 5-decimal EXTINF
	Parts []uint64 `json:"parts,omitempty"`
	Dated bool     `json:"dated,omitempty"`
}

type aplaylist struct {
	MediaSequence  int64     `json:"ms"`
	TargetDuration int64     `json:"td"`
	Map            bool      `json:"map"`
	Skip           *int64    `json:"skip,omitempty"`
	Segments       []plentry `json:"segs"`
	Parts          []uint64  `json:"parts,omitempty"`
	Hint           *uint64   `json:"hint,omitempty"`
	Query          []qitem   `json:"query,omitempty"`
	// oracle-only facts
	queries []string // raw query of every URI
	hlsKeys []string // "_HLS_" keys found in URI queries
}

var (
	rePart = regexp.MustCompile(`_part(\d+)\.mp4$`)
	reSeg  = regexp.MustCompile(`_seg(\d+)\.(mp4|ts)$`)
	reAttr = regexp.MustCompile(`([A-Z0-9-]+)=("[^"]*"|[^,]*)`)
)

func attrs(s string) map[string]string {
	m := map[string]string{}
	for _, a := range reAttr.FindAllStringSubmatch(s, -1) {
		m[a[1]] = strings.Trim(a[2], `"`)
	}
	return m
}

func durNS(s string) (int64, error) {
	// decimal seconds with up to 9 decimals -> ns, exactly
	neg := strings.HasPrefix(s, "-")
	s = strings.TrimPrefix(s, "-")
	ip, fp := s, ""
	if i := strings.IndexByte(s, '.'); i >= 0 {
		ip, fp = s[:i], s[i+1:]
	}
	for len(fp) < 9 {
		fp += "0"
	}
	a, err := strconv.ParseInt(ip, 10, 64)
	if err != nil {
		return 0, err
	}
	b, err := strconv.ParseInt(fp[:9], 10, 64)
	if err != nil {
		return 0, err
	}
	v := a*1000000000 + b
	if neg {
		v = -v
	}
	return v, nil
}

func splitURI(u string) (path string, raw string) {
	if i := strings.IndexByte(u, '?'); i >= 0 {
		return u[:i], u[i+1:]
	}
	return u, ""
}

// parseMedia is the harness's own reader of the muxer's media playlists (line based; it
// shares nothing with pkg/playlist).
func parseMedia(body string) (*aplaylist, error) {
	pl := &aplaylist{}
	lines := strings.Split(strings.TrimRight(body, "\n"), "\n")
	if len(lines) == 0 || lines[0] != "#EXTM3U" {
		return nil, fmt.Errorf("no #EXTM3U")
	}
	var curParts []uint64
	var curDur int64
	haveInf, gap, dated := false, false, false
	noteURI := func(u string) string {
		p, raw := splitURI(u)
		pl.queries = append(pl.queries, raw)
		if vals, err := url.ParseQuery(raw); err == nil || len(vals) > 0 {
			for k := range vals {
				if strings.HasPrefix(k, "_HLS_") {
					pl.hlsKeys = append(pl.hlsKeys, k)
				}
			}
		}
		return p
	}
	for _, ln := range lines[1:] {
		switch {
		case strings.HasPrefix(ln, "#EXT-X-MEDIA-SEQUENCE:"):
			v, err := strconv.ParseInt(ln[len("#EXT-X-MEDIA-SEQUENCE:"):], 10, 64)
			if err != nil {
				return nil, err
			}
			pl.MediaSequence = v
		case strings.HasPrefix(ln, "#EXT-X-TARGETDURATION:"):
			v, err := strconv.ParseInt(ln[len("#EXT-X-TARGETDURATION:"):], 10, 64)
			if err != nil {
				return nil, err
			}
			pl.TargetDuration = v
		case strings.HasPrefix(ln, "#EXT-X-MAP:"):
			pl.Map = true
			noteURI(attrs(ln[len("#EXT-X-MAP:"):])["URI"])
		case strings.HasPrefix(ln, "#EXT-X-SKIP:"):
			v, err := strconv.ParseInt(attrs(ln[len("#EXT-X-SKIP:"):])["SKIPPED-SEGMENTS"], 10, 64)
			if err != nil {
				return nil, err
			}
			pl.Skip = &v
		case ln == "#EXT-X-GAP":
			gap = true
		case strings.HasPrefix(ln, "#EXT-X-PROGRAM-DATE-TIME:"):
			dated = true
		case strings.HasPrefix(ln, "#EXT-X-PART:"):
			p := noteURI(attrs(ln[len("#EXT-X-PART:"):])["URI"])
			m := rePart.FindStringSubmatch(p)
			if m == nil {
				return nil, fmt.Errorf("part uri %q", p)
			}
			id, _ := strconv.ParseUint(m[1], 10, 64)
			curParts = append(curParts, id)
		case strings.HasPrefix(ln, "#EXT-X-PRELOAD-HINT:"):
			p := noteURI(attrs(ln[len("#EXT-X-PRELOAD-HINT:"):])["URI"])
			m := rePart.FindStringSubmatch(p)
			if m == nil {
				return nil, fmt.Errorf("hint uri %q", p)
			}
			id, _ := strconv.ParseUint(m[1], 10, 64)
			pl.Hint = &id
		case strings.HasPrefix(ln, "#EXTINF:"):
			s := ln[len("#EXTINF:"):]
			if i := strings.IndexByte(s, ','); i >= 0 {
				s = s[:i]
			}
			d, err := durNS(s)
			if err != nil {
				return nil, err
			}
			curDur, haveInf = d, true
		case strings.HasPrefix(ln, "#"):
			// other tags are not part of the abstraction
		case ln == "":
		default:
			if !haveInf {
				return nil, fmt.Errorf("URI line without EXTINF: %q", ln)
			}
			e := plentry{Dur: curDur, Dated: dated}
			if gap {
				e.Gap = true
				if len(curParts) > 0 {
					return nil, fmt.Errorf("gap with parts")
				}
			} else {
				p := noteURI(ln)
				m := reSeg.FindStringSubmatch(p)
				if m == nil {
					return nil, fmt.Errorf("segment uri %q", p)
				}
				e.ID, _ = strconv.ParseInt(m[1], 10, 64)
				e.Parts = curParts
			}
			pl.Segments = append(pl.Segments, e)
			curParts, haveInf, gap, dated = nil, false, false, false
		}
	}
	pl.Parts = curParts
	// every URI must carry the same query
	if len(pl.queries) > 0 {
		for _, q := range pl.queries {
			if q != pl.queries[0] {
				return nil, fmt.Errorf("URIs with different queries: %q vs %q", q, pl.queries[0])
			}
		}
		q, err := parseRaw(pl.queries[0])
		if err != nil {
			return nil, err
		}
		pl.Query = q
	}
	return pl, nil
}

func (pl *aplaylist) coq() string {
	var es []string
	for _, e := range pl.Segments {
		if e.Gap {
			es = append(es, fmt.Sprintf("PEGap %d", e.Dur))
		} else {
			es = append(es, fmt.Sprintf("PESeg %d %d %s %v", e.ID, e.Dur, ulist(e.Parts), e.Dated))
		}
	}
	skip, hint := "None", "None"
	if pl.Skip != nil {
		skip = fmt.Sprintf("(Some %d)", *pl.Skip)
	}
	if pl.Hint != nil {
		hint = fmt.Sprintf("(Some %d)", *pl.Hint)
	}
	return fmt.Sprintf("{| pl_mediaSequence := %d; pl_targetDuration := %d; pl_map := %v; pl_skip := %s; "+
		"pl_segments := [%s]; pl_parts := %s; pl_hint := %s; pl_query := %s |}",
		pl.MediaSequence, pl.TargetDuration, pl.Map, skip, strings.Join(es, "; "), ulist(pl.Parts), hint, qcoq(pl.Query))
}

func ulist(l []uint64) string {
	var s []string
	for _, x := range l {
		s = append(s, strconv.FormatUint(x, 10))
	}
	return "[" + strings.Join(s, "; ") + "]"
}

// ---- the property's reading of "contains" (written from the property text) ----
// A full (non-delta) playlist lists segment M when M is one of its media sequence numbers.
func (pl *aplaylist) listed(M uint64) bool {
	return M >= uint64(pl.MediaSequence) && M < uint64(pl.MediaSequence)+uint64(len(pl.Segments))
}

func (pl *aplaylist) openMSN() uint64 { return uint64(pl.MediaSequence) + uint64(len(pl.Segments)) }

func (pl *aplaylist) part0(K uint64) bool {
	return pl.listed(K) || (K == pl.openMSN() && len(pl.Parts) >= 1)
}

// contains: complete segment M, or (P given) part P of M, a part index past the end of a
// complete segment M counting as part 0 of segment M+1.
func (pl *aplaylist) contains(M uint64, P *uint64) bool {
	if P == nil {
		return pl.listed(M)
	}
	if pl.listed(M) {
		e := pl.Segments[M-uint64(pl.MediaSequence)]
		if *P < uint64(len(e.Parts)) || pl.part0(M+1) {
			return true
		}
	}
	return M == pl.openMSN() && *P < uint64(len(pl.Parts))
}
