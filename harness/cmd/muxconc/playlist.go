package main

import (
	"fmt"
	"net/url"
	"regexp"
	"strconv"
	"strings"

	"verifharness/internal/rng"
)

// ---- abstract queries (mirror of Model/MuxConcSeq.v qitem) ----

type qitem struct {
	K   string `json:"k,omitempty"`
	V   string `json:"v,omitempty"`
	Bad bool   `json:"bad,omitempty"`
}

const badToken = "a;b" // url.ParseQuery: "invalid semicolon separator in query"

func rawQuery(q []qitem) string { return rawQueryEnc(q, 0) }

// pct percent-encodes one byte, with upper- or lower-case hex digits.
func pct(c byte, lower bool) string {
	if lower {
		return fmt.Sprintf("%%%02x", c)
	}
	return fmt.Sprintf("%%%02X", c)
}

// escapeSome is url.QueryEscape with, in addition, some of the bytes that need no escaping
// percent-encoded (an equivalent spelling, RFC 3986 2.3), and a space as "+" or as "%20".
func escapeSome(s string, r *rng.R, num, den int, space20 bool) string {
	var b strings.Builder
	for i := 0; i < len(s); i++ {
		c := s[i]
		switch {
		case c == ' ':
			if space20 {
				b.WriteString("%20")
			} else {
				b.WriteByte('+')
			}
		case (c >= 'a' && c <= 'z') || (c >= 'A' && c <= 'Z') || (c >= '0' && c <= '9') || c == '_' || c == '-' || c == '.' || c == '~':
			if r.Bool(num, den) {
				b.WriteString(pct(c, r.Bool(1, 3)))
			} else {
				b.WriteByte(c)
			}
		default:
			b.WriteString(pct(c, false))
		}
	}
	return b.String()
}

// directiveKey spells a key that starts with "_HLS_" with a non-empty subset of the five
// characters of that prefix percent-encoded (%5FHLS_msn, _%48LS_part, %5FHLS%5Fskip, %5f...).
func directiveKey(k string, r *rng.R) string {
	mask := 1 + r.Intn(31)
	switch r.Intn(4) { // the spellings named in the seeded change, often
	case 0:
		mask = 1 // %5FHLS_
	case 1:
		mask = 2 // _%48LS_
	case 2:
		mask = 1 | 16 // %5FHLS%5F
	}
	lower := r.Bool(1, 3)
	var b strings.Builder
	for i := 0; i < 5; i++ {
		if mask&(1<<i) != 0 {
			b.WriteString(pct(k[i], lower))
		} else {
			b.WriteByte(k[i])
		}
	}
	b.WriteString(url.QueryEscape(k[5:]))
	return b.String()
}

// rawQueryEnc renders the decoded query as a raw query. enc selects, deterministically, one of
// the equivalent spellings (the decoded query, which is what the model is given, is the same):
//
//	0            plain (url.QueryEscape)
//	mode 1       every directive key has percent-encoded characters in its _HLS_ prefix
//	mode 2       a mix of plain and encoded directive keys
//	mode 3       encoded characters in the other keys and in values, directive keys plain
//	mode 4       everything: encoded directive keys, other keys, values, %20 for a space
//
// with mode = enc % 8 (5..7 as 1) and the rest of enc as the seed of the random choices.
func rawQueryEnc(q []qitem, enc uint64) string {
	mode := int(enc % 8)
	if mode >= 5 {
		mode = 1
	}
	r := rng.New(enc, 4242)
	var parts []string
	ndir, nenc := 0, 0
	for _, it := range q {
		if !it.Bad && strings.HasPrefix(it.K, "_HLS_") {
			ndir++
		}
	}
	seenDir := 0
	for _, it := range q {
		if it.Bad {
			parts = append(parts, badToken)
			continue
		}
		isDir := strings.HasPrefix(it.K, "_HLS_")
		k, v := url.QueryEscape(it.K), url.QueryEscape(it.V)
		switch {
		case enc == 0 || mode == 0:
		case isDir:
			seenDir++
			encode := mode == 1 || mode == 4
			if mode == 2 {
				// at least one encoded and, when there are two or more, at least one plain
				encode = r.Bool(1, 2)
				if seenDir == ndir && nenc == 0 {
					encode = true
				}
				if ndir >= 2 && seenDir == ndir && nenc == ndir-1 {
					encode = false
				}
			}
			if encode {
				nenc++
				k = directiveKey(it.K, r)
			}
			if mode == 4 {
				v = escapeSome(it.V, r, 1, 3, true)
			}
		case mode == 3 || mode == 4:
			k = escapeSome(it.K, r, 1, 3, mode == 4)
			v = escapeSome(it.V, r, 1, 3, mode == 4)
		}
		parts = append(parts, k+"="+v)
	}
	return strings.Join(parts, "&")
}

// parseRaw canonicalises the query of an emitted URI back into abstract tokens.
func parseRaw(raw string) ([]qitem, error) {
	if raw == "" {
		return nil, nil
	}
	var out []qitem
	for _, tok := range strings.Split(raw, "&") {
		if tok == badToken {
			out = append(out, qitem{Bad: true})
			continue
		}
		kv := strings.SplitN(tok, "=", 2)
		if len(kv) != 2 {
			return nil, fmt.Errorf("token %q", tok)
		}
		k, err1 := url.QueryUnescape(kv[0])
		v, err2 := url.QueryUnescape(kv[1])
		if err1 != nil || err2 != nil {
			return nil, fmt.Errorf("token %q", tok)
		}
		out = append(out, qitem{K: k, V: v})
	}
	return out, nil
}

func qcoq(q []qitem) string {
	var s []string
	for _, it := range q {
		if it.Bad {
			s = append(s, "QBad")
		} else {
			s = append(s, "QPair "+cstr(it.K)+" "+cstr(it.V))
		}
	}
	return "[" + strings.Join(s, "; ") + "]"
}

func cstr(s string) string {
	return "\"" + strings.ReplaceAll(s, "\"", "\"\"") + "\"%string"
}

// ---- abstract playlists (mirror of Model/MuxConcSeq.v playlist) ----

type plentry struct {
	Gap   bool     `json:"gap,omitempty"`
	ID    int64    `json:"id"`
	Dur   int64    `json:"dur"` // ns, from the 5-decimal EXTINF
	Parts []uint64 `json:"parts,omitempty"`
	Dated bool     `json:"dated,omitempty"`
}

type aplaylist struct {
	MediaSequence  int64     `json:"ms"`
	TargetDuration int64     `json:"td"`
	Map            bool      `json:"map"`
	Skip           *int64    `json:"skip,omitempty"`
	Segments       []plentry `json:"segs"`
	Parts          []uint64  `json:"parts,omitempty"`
	Hint           *uint64   `json:"hint,omitempty"`
	Query          []qitem   `json:"query,omitempty"`
	// oracle-only facts
	queries []string // raw query of every URI
	hlsKeys []string // "_HLS_" keys found in URI queries
}

var (
	rePart = regexp.MustCompile(`_part(\d+)\.mp4$`)
	reSeg  = regexp.MustCompile(`_seg(\d+)\.(mp4|ts)$`)
	reAttr = regexp.MustCompile(`([A-Z0-9-]+)=("[^"]*"|[^,]*)`)
)

func attrs(s string) map[string]string {
	m := map[string]string{}
	for _, a := range reAttr.FindAllStringSubmatch(s, -1) {
		m[a[1]] = strings.Trim(a[2], `"`)
	}
	return m
}

func durNS(s string) (int64, error) {
	// decimal seconds with up to 9 decimals -> ns, exactly
	neg := strings.HasPrefix(s, "-")
	s = strings.TrimPrefix(s, "-")
	ip, fp := s, ""
	if i := strings.IndexByte(s, '.'); i >= 0 {
		ip, fp = s[:i], s[i+1:]
	}
	for len(fp) < 9 {
		fp += "0"
	}
	a, err := strconv.ParseInt(ip, 10, 64)
	if err != nil {
		return 0, err
	}
	b, err := strconv.ParseInt(fp[:9], 10, 64)
	if err != nil {
		return 0, err
	}
	v := a*1000000000 + b
	if neg {
		v = -v
	}
	return v, nil
}

func splitURI(u string) (path string, raw string) {
	if i := strings.IndexByte(u, '?'); i >= 0 {
		return u[:i], u[i+1:]
	}
	return u, ""
}

// parseMedia is the harness's own reader of the muxer's media playlists (line based; it
// shares nothing with pkg/playlist).
func parseMedia(body string) (*aplaylist, error) {
	pl := &aplaylist{}
	lines := strings.Split(strings.TrimRight(body, "\n"), "\n")
	if len(lines) == 0 || lines[0] != "#EXTM3U" {
		return nil, fmt.Errorf("no #EXTM3U")
	}
	var curParts []uint64
	var curDur int64
	haveInf, gap, dated := false, false, false
	noteURI := func(u string) string {
		p, raw := splitURI(u)
		pl.queries = append(pl.queries, raw)
		if vals, err := url.ParseQuery(raw); err == nil || len(vals) > 0 {
			for k := range vals {
				if strings.HasPrefix(k, "_HLS_") {
					pl.hlsKeys = append(pl.hlsKeys, k)
				}
			}
		}
		return p
	}
	for _, ln := range lines[1:] {
		switch {
		case strings.HasPrefix(ln, "#EXT-X-MEDIA-SEQUENCE:"):
			v, err := strconv.ParseInt(ln[len("#EXT-X-MEDIA-SEQUENCE:"):], 10, 64)
			if err != nil {
				return nil, err
			}
			pl.MediaSequence = v
		case strings.HasPrefix(ln, "#EXT-X-TARGETDURATION:"):
			v, err := strconv.ParseInt(ln[len("#EXT-X-TARGETDURATION:"):], 10, 64)
			if err != nil {
				return nil, err
			}
			pl.TargetDuration = v
		case strings.HasPrefix(ln, "#EXT-X-MAP:"):
			pl.Map = true
			noteURI(attrs(ln[len("#EXT-X-MAP:"):])["URI"])
		case strings.HasPrefix(ln, "#EXT-X-SKIP:"):
			v, err := strconv.ParseInt(attrs(ln[len("#EXT-X-SKIP:"):])["SKIPPED-SEGMENTS"], 10, 64)
			if err != nil {
				return nil, err
			}
			pl.Skip = &v
		case ln == "#EXT-X-GAP":
			gap = true
		case strings.HasPrefix(ln, "#EXT-X-PROGRAM-DATE-TIME:"):
			dated = true
		case strings.HasPrefix(ln, "#EXT-X-PART:"):
			p := noteURI(attrs(ln[len("#EXT-X-PART:"):])["URI"])
			m := rePart.FindStringSubmatch(p)
			if m == nil {
				return nil, fmt.Errorf("part uri %q", p)
			}
			id, _ := strconv.ParseUint(m[1], 10, 64)
			curParts = append(curParts, id)
		case strings.HasPrefix(ln, "#EXT-X-PRELOAD-HINT:"):
			p := noteURI(attrs(ln[len("#EXT-X-PRELOAD-HINT:"):])["URI"])
			m := rePart.FindStringSubmatch(p)
			if m == nil {
				return nil, fmt.Errorf("hint uri %q", p)
			}
			id, _ := strconv.ParseUint(m[1], 10, 64)
			pl.Hint = &id
		case strings.HasPrefix(ln, "#EXTINF:"):
			s := ln[len("#EXTINF:"):]
			if i := strings.IndexByte(s, ','); i >= 0 {
				s = s[:i]
			}
			d, err := durNS(s)
			if err != nil {
				return nil, err
			}
			curDur, haveInf = d, true
		case strings.HasPrefix(ln, "#"):
			// other tags are not part of the abstraction
		case ln == "":
		default:
			if !haveInf {
				return nil, fmt.Errorf("URI line without EXTINF: %q", ln)
			}
			e := plentry{Dur: curDur, Dated: dated}
			if gap {
				e.Gap = true
				if len(curParts) > 0 {
					return nil, fmt.Errorf("gap with parts")
				}
			} else {
				p := noteURI(ln)
				m := reSeg.FindStringSubmatch(p)
				if m == nil {
					return nil, fmt.Errorf("segment uri %q", p)
				}
				e.ID, _ = strconv.ParseInt(m[1], 10, 64)
				e.Parts = curParts
			}
			pl.Segments = append(pl.Segments, e)
			curParts, haveInf, gap, dated = nil, false, false, false
		}
	}
	pl.Parts = curParts
	// every URI must carry the same query
	if len(pl.queries) > 0 {
		for _, q := range pl.queries {
			if q != pl.queries[0] {
				return nil, fmt.Errorf("URIs with different queries: %q vs %q", q, pl.queries[0])
			}
		}
		q, err := parseRaw(pl.queries[0])
		if err != nil {
			return nil, err
		}
		pl.Query = q
	}
	return pl, nil
}

func (pl *aplaylist) coq() string {
	var es []string
	for _, e := range pl.Segments {
		if e.Gap {
			es = append(es, fmt.Sprintf("PEGap %d", e.Dur))
		} else {
			es = append(es, fmt.Sprintf("PESeg %d %d %s %v", e.ID, e.Dur, ulist(e.Parts), e.Dated))
		}
	}
	skip, hint := "None", "None"
	if pl.Skip != nil {
		skip = fmt.Sprintf("(Some %d)", *pl.Skip)
	}
	if pl.Hint != nil {
		hint = fmt.Sprintf("(Some %d)", *pl.Hint)
	}
	return fmt.Sprintf("{| pl_mediaSequence := %d; pl_targetDuration := %d; pl_map := %v; pl_skip := %s; "+
		"pl_segments := [%s]; pl_parts := %s; pl_hint := %s; pl_query := %s |}",
		pl.MediaSequence, pl.TargetDuration, pl.Map, skip, strings.Join(es, "; "), ulist(pl.Parts), hint, qcoq(pl.Query))
}

func ulist(l []uint64) string {
	var s []string
	for _, x := range l {
		s = append(s, strconv.FormatUint(x, 10))
	}
	return "[" + strings.Join(s, "; ") + "]"
}

// ---- the property's reading of "contains" (written from the property text) ----
// A full (non-delta) playlist lists segment M when M is one of its media sequence numbers.
func (pl *aplaylist) listed(M uint64) bool {
	return M >= uint64(pl.MediaSequence) && M < uint64(pl.MediaSequence)+uint64(len(pl.Segments))
}

func (pl *aplaylist) openMSN() uint64 { return uint64(pl.MediaSequence) + uint64(len(pl.Segments)) }

func (pl *aplaylist) part0(K uint64) bool {
	return pl.listed(K) || (K == pl.openMSN() && len(pl.Parts) >= 1)
}

// contains: complete segment M, or (P given) part P of M, a part index past the end of a
// complete segment M counting as part 0 of segment M+1.
func (pl *aplaylist) contains(M uint64, P *uint64) bool {
	if P == nil {
		return pl.listed(M)
	}
	if pl.listed(M) {
		e := pl.Segments[M-uint64(pl.MediaSequence)]
		if *P < uint64(len(e.Parts)) || pl.part0(M+1) {
			return true
		}
	}
	return M == pl.openMSN() && *P < uint64(len(pl.Parts))
}
