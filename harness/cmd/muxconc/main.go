// Command muxconc drives a real gohlslib.Muxer with a writer goroutine and requester
// goroutines under a controller installed through gohlslib.VerifSetHook, so that "blocks",
// "wakes", "re-checks" are observed at the hook points and not inferred from timing. It
// (a) compares the handlers' decisions and generated playlists at quiescent points with the
// Coq model (sequential cases), (b) replays forced schedules around rotations and around
// Close and compares every requester's outcome with the model's run of the same schedule,
// and checks everything against oracles written from the texts of properties C06 and C07.
package main

import (
	"crypto/sha256"
	"encoding/hex"
	"encoding/json"
	"flag"
	"fmt"
	"os"
	"os/exec"
	"path/filepath"
	"runtime"
	"sort"
	"strconv"
	"sync"
	"time"

	"verifharness/internal/rng"
)

func q(kv ...string) []qitem {
	var out []qitem
	for i := 0; i+1 < len(kv); i += 2 {
		out = append(out, qitem{K: kv[i], V: kv[i+1]})
	}
	return out
}

func u(v uint64) string { return strconv.FormatUint(v, 10) }

func genHistory(r *rng.R, minFrames, maxFrames int) []bool {
	n := minFrames + r.Intn(maxFrames-minFrames+1)
	h := make([]bool, n)
	for i := range h {
		h[i] = i == 0 || r.Bool(1, 5)
	}
	return h
}

// shape of a history as the muxer will see it (LL): used only to aim probes; the truth is
// read from the snapshot
type shape struct {
	next, ms, nextPart uint64
	openParts          int
	lastParts          int
	segs               int
}

func aimProbes(r *rng.R, st snapStream, stream int) []areq {
	next := uint64(st.NextSegmentID)
	ms := uint64(st.DeleteCount)
	var ps []areq
	add := func(kv ...string) { ps = append(ps, areq{Kind: "media", Stream: stream, Query: q(kv...)}) }
	msns := []uint64{0, ms, ms + 1, ms + 2, next - 2, next - 1, next, next + 1, next + 2, next + 5, 1<<64 - 1}
	if st.Gaps > 0 {
		msns = append(msns, ms+uint64(st.Gaps)-1, ms+uint64(st.Gaps))
	}
	parts := []string{"", "0", "1", "2", "3", "4", "7", u(uint64(st.NextParts)), u(uint64(st.NextParts) + 1), "1000"}
	for _, m := range msns {
		if m > 1<<63 && m != 1<<64-1 {
			continue // wrapped subtraction
		}
		// a few part choices per msn
		k := 2 + r.Intn(3)
		for j := 0; j < k; j++ {
			p := parts[r.Intn(len(parts))]
			if j == 0 {
				p = ""
			}
			if p == "" {
				add("_HLS_msn", u(m))
			} else {
				add("_HLS_msn", u(m), "_HLS_part", p)
			}
		}
	}
	// the parts of the last complete and of the open segment, systematically
	for p := 0; p <= 6; p++ {
		add("_HLS_msn", u(next-1), "_HLS_part", strconv.Itoa(p))
		add("_HLS_msn", u(next), "_HLS_part", strconv.Itoa(p))
	}
	// delta updates, other parameters, malformed input
	add("_HLS_skip", "YES")
	add("_HLS_skip", "v2")
	add("_HLS_skip", "NO")
	add("_HLS_msn", u(next-1), "_HLS_skip", "YES", "token", "abc")
	add("token", "abc", "_HLS_skip", "v2", "x", "1")
	add("_HLS_part", "0")
	add("_HLS_msn", "", "_HLS_part", "1")
	add("_HLS_msn", "abc")
	add("_HLS_msn", "-1")
	add("_HLS_msn", "1.5")
	add("_HLS_msn", "18446744073709551616")
	add("_HLS_msn", "00"+u(next-1))
	add("_HLS_msn", u(next-1), "_HLS_part", "x")
	add("_HLS_msn", u(next-1), "_HLS_msn", "abc")
	ps = append(ps, areq{Kind: "media", Stream: stream, Query: append(q("_HLS_skip", "YES", "token", "t"), qitem{Bad: true})})
	ps = append(ps, areq{Kind: "media", Stream: stream, Query: append(q("_HLS_msn", u(next-1)), qitem{Bad: true})})
	add("_HLS_msn", u(next-1), "_HLS_part", "0", "my key", "a b", "token", "x/y z")
	add("_HLS_skip", "YES", "_HLS_msn", u(next), "_HLS_part", "0", "t", "a+b c")
	// directives the server does not act on are delivery directives all the same: no _HLS_ key may reach a URI
	// (round 10: C06-m14, only _HLS_msn / _HLS_part / _HLS_skip filtered out)
	add("_HLS_push", "1", "token", "abc")
	add("_HLS_report", "x", "_HLS_skip", "YES")
	add("_HLS_msn", u(next-1), "_HLS_", "e", "_HLS_msnx", "5", "k", "v")
	add("q r", "1 2")
	ps = append(ps, areq{Kind: "media", Stream: stream})
	// the same decoded query arrives in one of its equivalent raw spellings (percent-encoded
	// characters in directive keys, in other keys, in values; "+" or %20 for a space)
	for i := range ps {
		if len(ps[i].Query) > 0 {
			ps[i].Enc = pickEnc(r)
		}
	}
	return ps
}

// pickEnc: 0 (plain) in 2 of 5 cases, else one of the four modes of rawQueryEnc with a random seed
func pickEnc(r *rng.R) uint64 {
	if r.Bool(2, 5) {
		return 0
	}
	return uint64(1+r.Intn(4)) + 8*uint64(1+r.Intn(1<<20))
}

type runner func(sc scenario, work string) result

func runScenario(sc scenario, work string) result {
	switch sc.Kind {
	case "seq":
		return runSeq(sc, work)
	case "sched":
		return runSched(sc, work)
	case "finalize":
		return runFinalize(sc, work)
	case "evictclose":
		return runEvictClose(sc, work)
	case "initfail":
		return runInitFail(sc, work)
	case "evict":
		return runEvict(sc, work)
	case "close":
		return runClose(sc, work)
	}
	return result{infraErr: "unknown scenario kind " + sc.Kind}
}

// quickSnapshot replays a history on a scratch muxer to aim requests at the resulting state.
func quickSnapshot(cfg mcfg, history []bool, work string) (snapshot, error) {
	d, err := newDriver(cfg, work)
	if err != nil {
		return snapshot{}, err
	}
	defer cleanup(d)
	c := newCtl(d.m)
	if _, err := replayHistory(d, c, history); err != nil {
		return snapshot{}, err
	}
	s, err := d.snap()
	d.m.Close()
	return s, err
}

func blockingReq(stream int, m uint64, p int, extra ...string) areq {
	kv := []string{"_HLS_msn", u(m)}
	if p >= 0 {
		kv = append(kv, "_HLS_part", strconv.Itoa(p))
	}
	kv = append(kv, extra...)
	return areq{Kind: "media", Stream: stream, Query: q(kv...)}
}

// the request kinds of the forced schedules, aimed at the state after the history
func schedReqKinds(st snapStream, streams int) []areq {
	next := uint64(st.NextSegmentID)
	op := int(st.NextParts)
	l := []areq{
		blockingReq(0, next, op),   // the next part of the open segment
		blockingReq(0, next, op+1), // the one after
		blockingReq(0, next+1, -1), // the next segment
		blockingReq(0, next+1, 0),  // part 0 of the next segment
		blockingReq(0, next, -1),   // the open segment, no part given
		blockingReq(0, next, op, "_HLS_skip", "YES"),
		{Kind: "media", Stream: 0},
		{Kind: "multi"},
		blockingReq(0, next+5, -1), // 400
	}
	if st.Len >= 1 {
		l = append(l, blockingReq(0, next-1, 0), blockingReq(0, next-1, 9)) // complete; past its end
	}
	if st.NextPartID > 0 {
		l = append(l, areq{Kind: "path", Stream: 0, PKind: "part", ID: uint64(st.NextPartID)}) // preload hint (registered by the first part rotation)
	}
	if streams == 2 {
		l = append(l, blockingReq(1, next, op), areq{Kind: "media", Stream: 1})
	}
	return l
}

func main() {
	seed := flag.Uint64("seed", 0, "seed")
	tier := flag.String("tier", "quick", "quick|thorough")
	out := flag.String("out", "", "output directory")
	replay := flag.String("replay", "", "replay file (JSON with .input = a scenario)")
	only := flag.String("only", "", "C06|C07: which property's scenarios to run (default both)")
	scale := flag.Int("scale", 1, "multiplier of the scenario counts")
	limit := flag.Int("limit", 0, "run only the first N scenarios (debugging)")
	chunk := flag.String("chunk", "", "internal: run scenarios a:b and write part_a.json")
	corpus := flag.String("corpus", "", "directory of regression replays (<only>-*.json), run first")
	verbose := flag.Bool("v", false, "print every scenario and its duration")
	flag.Parse()
	if *out == "" {
		fmt.Fprintln(os.Stderr, "need -out")
		os.Exit(2)
	}
	os.MkdirAll(*out, 0o755)
	work := filepath.Join(*out, "tmp")
	os.RemoveAll(work)
	os.MkdirAll(work, 0o755)
	defer os.RemoveAll(work)
	installHook()

	var scens []scenario
	var genErr []string
	thorough := *tier == "thorough"
	nSeq, nSched, nClose := 150, 1000, 800
	if thorough {
		nSeq, nSched, nClose = 2000, 20000, 15000
	}
	nSeq, nSched, nClose = nSeq**scale, nSched**scale, nClose**scale

	if *replay != "" {
		raw, err := os.ReadFile(*replay)
		if err != nil {
			panic(err)
		}
		var rp struct {
			Input scenario `json:"input"`
		}
		if err := json.Unmarshal(raw, &rp); err != nil {
			panic(err)
		}
		scens = []scenario{rp.Input}
	} else {
		// corpus first: the replays of the repaired findings (and of anything recorded later)
		if *corpus != "" {
			pat := "C0[67]-*.json"
			if *only != "" {
				pat = *only + "-*.json"
			}
			files, _ := filepath.Glob(filepath.Join(*corpus, pat))
			sort.Strings(files)
			for _, f := range files {
				raw, err := os.ReadFile(f)
				if err != nil {
					genErr = append(genErr, err.Error())
					continue
				}
				var rp struct {
					Input scenario `json:"input"`
				}
				if err := json.Unmarshal(raw, &rp); err != nil || rp.Input.Kind == "" {
					genErr = append(genErr, "corpus file "+f+" is not a scenario")
					continue
				}
				scens = append(scens, rp.Input)
			}
		}
		if *only == "" || *only == "C07" {
			scens = append(scens, fixedCloseScens(work, &genErr)...)
			scens = append(scens, genClose(*seed, nClose, thorough, work, &genErr)...)
		}
		if *only == "" || *only == "C06" {
			scens = append(scens, genSched(*seed, nSched, thorough, work, &genErr)...)
			scens = append(scens, genSeq(*seed, nSeq, work, &genErr)...)
		}
	}

	if *limit > 0 && len(scens) > *limit {
		scens = scens[:*limit]
	}
	// ---- run: in this process (a chunk, a replay, a small set) or in child processes ----
	const chunkSize = 400
	if *chunk != "" {
		var a, b int
		fmt.Sscanf(*chunk, "%d:%d", &a, &b)
		if b > len(scens) {
			b = len(scens)
		}
		recs := runAll(scens[a:b], a, work, *verbose)
		j, _ := json.Marshal(recs)
		if err := os.WriteFile(filepath.Join(*out, fmt.Sprintf("part_%d.json", a)), j, 0o644); err != nil {
			panic(err)
		}
		return
	}
	var recs []scRec
	if len(scens) <= chunkSize {
		recs = runAll(scens, 0, work, *verbose)
	} else {
		// parked goroutines of abandoned requests accumulate in a process (and with them the
		// cost of inspecting goroutine states): every chunk gets a fresh process
		type job struct{ a, b int }
		var jobs []job
		for a := 0; a < len(scens); a += chunkSize {
			jobs = append(jobs, job{a, a + chunkSize})
		}
		workers := runtime.NumCPU() / 2
		if workers < 1 {
			workers = 1
		}
		if workers > 6 {
			workers = 6
		}
		sem := make(chan struct{}, workers)
		errs := make([]error, len(jobs))
		var wg sync.WaitGroup
		for ji, jb := range jobs {
			wg.Add(1)
			sem <- struct{}{}
			go func(ji int, jb job) {
				defer wg.Done()
				defer func() { <-sem }()
				cout := filepath.Join(*out, fmt.Sprintf("chunk_%d", jb.a))
				args := []string{"-seed", fmt.Sprint(*seed), "-tier", *tier, "-out", cout, "-only", *only,
					"-scale", fmt.Sprint(*scale), "-corpus", *corpus, "-chunk", fmt.Sprintf("%d:%d", jb.a, jb.b)}
				if *limit > 0 {
					args = append(args, "-limit", fmt.Sprint(*limit))
				}
				cmd := exec.Command(os.Args[0], args...)
				cmd.Stderr = os.Stderr
				errs[ji] = cmd.Run()
			}(ji, jb)
		}
		wg.Wait()
		for ji, jb := range jobs {
			cout := filepath.Join(*out, fmt.Sprintf("chunk_%d", jb.a))
			if errs[ji] != nil {
				recs = append(recs, scRec{ID: jb.a, Infra: fmt.Sprintf("chunk %d: %v", jb.a, errs[ji])})
				continue
			}
			raw, err := os.ReadFile(filepath.Join(cout, fmt.Sprintf("part_%d.json", jb.a)))
			if err != nil {
				recs = append(recs, scRec{ID: jb.a, Infra: err.Error()})
				continue
			}
			var part []scRec
			if err := json.Unmarshal(raw, &part); err != nil {
				recs = append(recs, scRec{ID: jb.a, Infra: err.Error()})
				continue
			}
			recs = append(recs, part...)
			os.RemoveAll(cout)
		}
	}

	var failures []failure
	var infra []string
	type caseRec struct {
		ID    int             `json:"id"`
		Shard int             `json:"shard"`
		Index int             `json:"index"`
		Input json.RawMessage `json:"input"`
	}
	var cases []caseRec
	dist := map[string]int{}
	seen := map[string]bool{}
	distinct := 0
	var samples []json.RawMessage
	var shard *os.File
	shardIdx, inShard := -1, 0
	shardSize := 60
	closeShard := func() {
		if shard != nil {
			fmt.Fprintln(shard, "].")
			fmt.Fprintln(shard, "Definition M := Eval vm_compute in mismatches cases.")
			fmt.Fprintln(shard, "Print M.")
			shard.Close()
			shard = nil
		}
	}
	for _, rc := range recs {
		if rc.Infra != "" {
			infra = append(infra, rc.Infra)
		}
		infra = append(infra, rc.Notes...)
		failures = append(failures, rc.Fails...)
		for _, t := range rc.Tags {
			dist[t]++
		}
		if rc.Coq == "" {
			continue
		}
		if shard == nil || inShard >= shardSize {
			closeShard()
			shardIdx++
			inShard = 0
			var err error
			shard, err = os.Create(filepath.Join(*out, fmt.Sprintf("cases_%d.v", shardIdx)))
			if err != nil {
				panic(err)
			}
			fmt.Fprintln(shard, "From Coq Require Import List ZArith String.")
			fmt.Fprintln(shard, "From GoHls Require Import Model.MuxConcSeq Model.MuxConcPar Tie.MuxConcTie.")
			fmt.Fprintln(shard, "Import ListNotations. Open Scope Z_scope.")
			fmt.Fprintln(shard, "Definition cases : list mcase := [")
		}
		if inShard > 0 {
			fmt.Fprintln(shard, ";")
		}
		fmt.Fprint(shard, rc.Coq)
		cases = append(cases, caseRec{ID: rc.ID, Shard: shardIdx, Index: inShard, Input: rc.Input})
		inShard++
		h := sha256.Sum256(rc.Input)
		hs := hex.EncodeToString(h[:8])
		if !seen[hs] {
			seen[hs] = true
			if rc.Nontriv {
				distinct++
				if len(samples) < 3 {
					samples = append(samples, rc.Input)
				}
			}
		}
	}
	closeShard()
	if len(samples) == 0 && len(scens) > 0 {
		samples = append(samples, scens[0].json())
	}
	// smallest input first per signature
	sort.SliceStable(failures, func(i, j int) bool { return len(failures[i].Input) < len(failures[j].Input) })
	// keep the ten smallest inputs of every signature; the totals go to the distribution
	{
		per := map[string]int{}
		var kept []failure
		for _, f := range failures {
			dist["failure:"+f.Signature]++
			if per[f.Signature] < 10 {
				per[f.Signature]++
				kept = append(kept, f)
			}
		}
		failures = kept
	}
	for _, e := range genErr {
		infra = append(infra, "generator: "+e)
	}
	resj := map[string]interface{}{
		"evaluations":         len(scens),
		"distinct_nontrivial": distinct,
		"rule": "scenarios from splitmix64(seed): (seq) write histories of 2-40 frames on LL muxers (1-2 streams, segmentCount 7-9) with a grid of " +
			"~80 requests around the playlist, each decoded query rendered in one of its equivalent raw spellings (plain; percent-encoded characters in the " +
			"_HLS_ prefix of all / some directive keys, upper or lower hex; encoded other keys and values; + or %20 for a space); (sched) up to 3 (thorough 4) requesters x 6 placements of their two macro steps around the writer's " +
			"Lock;rotate;Unlock | Broadcast, 1-2 rotations; (close) 0-3 pending requests of each kind x Close before data/mid segment/mid part x 3 orders " +
			"of re-check vs stream-marked-closed, RAM and Directory, LL/FMP4/MPEGTS; distinct by SHA-256 of the scenario; non-trivial = (seq) at least one " +
			"Ready, one Block and one 400 among the well-formed blocking probes, (sched) at least one requester slept and a rotation happened, " +
			"(close) at least one request was pending when Close began",
		"samples":                       samples,
		"distribution":                  dist,
		"oracle_failures":               failures,
		"cases":                         cases,
		"shards":                        shardIdx + 1,
		"errors":                        infra,
		"traces_validated_against_impl": len(cases),
	}
	j, _ := json.MarshalIndent(resj, "", " ")
	os.WriteFile(filepath.Join(*out, "result.json"), j, 0o644)
	fmt.Printf("muxconc harness: %d scenarios, %d distinct non-trivial, %d oracle failures, %d infra errors, %d shards\n",
		len(scens), distinct, len(failures), len(infra), shardIdx+1)
}

// result of one scenario, as passed from a chunk process to the parent
type scRec struct {
	ID      int             `json:"id"`
	Input   json.RawMessage `json:"input,omitempty"`
	Coq     string          `json:"coq,omitempty"`
	Fails   []failure       `json:"fails,omitempty"`
	Tags    []string        `json:"tags,omitempty"`
	Nontriv bool            `json:"nontriv,omitempty"`
	Infra   string          `json:"infra,omitempty"`
	Notes   []string        `json:"notes,omitempty"`
}

func runAll(scens []scenario, base int, work string, verbose bool) []scRec {
	var recs []scRec
	confirmed := map[string]int{}
	for k, sc := range scens {
		id := base + k
		t1 := time.Now()
		res := runScenario(sc, work)
		if verbose {
			fmt.Fprintf(os.Stderr, "%d %s %.3fs err=%q fails=%d %s\n", id, sc.Kind, time.Since(t1).Seconds(), res.infraErr, len(res.fails), sc.json())
		}
		rc := scRec{ID: id, Input: sc.json()}
		if res.infraErr != "" {
			rc.Infra = fmt.Sprintf("scenario %d (%s): %s", id, sc.Kind, res.infraErr)
			recs = append(recs, rc)
			continue
		}
		needConfirm := false
		for _, f := range res.fails {
			if confirmed[f.Signature] < 5 {
				needConfirm = true
			}
		}
		if len(res.fails) > 0 && !needConfirm {
			rc.Fails = res.fails
		} else if len(res.fails) > 0 {
			// a finding must reproduce: three runs, the same signatures (done for the first
			// five scenarios of every signature in a process; later ones are counted as observed)
			keep := map[string]int{}
			for _, f := range res.fails {
				keep[f.Signature] = 1
			}
			for k := 0; k < 2; k++ {
				r2 := runScenario(sc, work)
				got := map[string]bool{}
				for _, f := range r2.fails {
					got[f.Signature] = true
				}
				for s := range keep {
					if got[s] {
						keep[s]++
					}
				}
			}
			for _, f := range res.fails {
				if keep[f.Signature] == 3 {
					rc.Fails = append(rc.Fails, f)
					confirmed[f.Signature]++
				} else if sc.Kind == "close" && sc.Order == "free" {
					// the free run is a genuine race: an outcome that does not repeat is not a finding
					rc.Tags = append(rc.Tags, "close:free:outcome-not-repeated")
				} else {
					rc.Notes = append(rc.Notes, fmt.Sprintf("scenario %d: failure %s did not reproduce 3 times", id, f.Signature))
				}
			}
		}
		rc.Coq, rc.Nontriv = res.coq, res.nontriv
		rc.Tags = append(rc.Tags, res.tags...)
		recs = append(recs, rc)
	}
	return recs
}

// ---------------- generators ----------------

func genSeq(seed uint64, n int, work string, errs *[]string) []scenario {
	var out []scenario
	for i := 0; i < n; i++ {
		r := rng.New(seed, uint64(1000000+i))
		cfg := mcfg{Variant: "LL", SegCount: 7 + r.Pick(6, 1, 1), Streams: 1 + r.Pick(3, 1)}
		h := genHistory(r, 2, 40)
		small := [][]bool{{true, true}, {true, false, false, true}, {true, false, false, true, false, false},
			{true, false, false, true, false, false, false, true, false}, {true, false}, {true}}
		if i < len(small) {
			h = small[i] // the first moments of a stream
			cfg = mcfg{Variant: "LL", SegCount: 7, Streams: 1}
		}
		s, err := quickSnapshot(cfg, h, work)
		if err != nil {
			*errs = append(*errs, err.Error())
			continue
		}
		k := r.Intn(cfg.Streams)
		probes := aimProbes(r, s.Streams[k], k)
		probes = append(probes, areq{Kind: "multi"})
		if s.Streams[k].NextPartID > 0 {
			probes = append(probes, areq{Kind: "path", Stream: k, PKind: "part", ID: uint64(s.Streams[k].NextPartID - 1)})
		}
		out = append(out, scenario{Kind: "seq", Cfg: cfg, History: h, Probes: probes})
	}
	return out
}

func genSched(seed uint64, n int, thorough bool, work string, errs *[]string) []scenario {
	var out []scenario
	// base histories: no content yet / content, open segment with 0, 1, 2 parts
	bases := [][]bool{
		{true},
		{true, false},
		{true, false, false},
		{true, false, false, true},
		{true, false, false, true, false, false},
		{true, false, false, true, false, false, false, false},
		{true, false, true, false, false, false, false, true, false},
	}
	type base struct {
		cfg  mcfg
		h    []bool
		st   snapStream
		reqs []areq
	}
	var bs []base
	for _, streams := range []int{1, 2} {
		for _, h := range bases {
			cfg := mcfg{Variant: "LL", SegCount: 7, Streams: streams}
			s, err := quickSnapshot(cfg, h, work)
			if err != nil {
				*errs = append(*errs, err.Error())
				continue
			}
			bs = append(bs, base{cfg, h, s.Streams[0], schedReqKinds(s.Streams[0], streams)})
		}
	}
	// systematic: one requester, every kind, every placement, a part rotation and a segment rotation
	for bi, b := range bs {
		if b.cfg.Streams == 2 && !thorough && bi%2 == 0 {
			continue
		}
		for _, rq := range b.reqs {
			for slot := 0; slot < 6; slot++ {
				for _, idr := range []bool{false, true} {
					if len(out) >= n*2/3 {
						break
					}
					if (slot+len(out))%2 == 0 && !thorough {
						continue // halve the systematic part in the quick tier
					}
					rq1 := rq
					if len(rq1.Query) > 0 && (slot+len(out))%3 != 0 {
						rq1.Enc = uint64(1+(slot+len(out))%4) + 8*uint64(1+len(out))
					}
					out = append(out, scenario{Kind: "sched", Cfg: b.cfg, History: b.h, Reqs: []areq{rq1},
						Slots: []int{slot}, Frames: []bool{idr, false}})
				}
			}
		}
	}
	// random: 2-3 (thorough: up to 4) requesters, 1-2 (thorough 3) frames
	for i := 0; len(out) < n; i++ {
		r := rng.New(seed, uint64(2000000+i))
		b := bs[r.Intn(len(bs))]
		k := 2 + r.Intn(2)
		if thorough && r.Bool(1, 4) {
			k = 4
		}
		sc := scenario{Kind: "sched", Cfg: b.cfg, History: b.h}
		for j := 0; j < k; j++ {
			rq := b.reqs[r.Intn(len(b.reqs))]
			if len(rq.Query) > 0 {
				rq.Enc = pickEnc(r)
			}
			sc.Reqs = append(sc.Reqs, rq)
			sc.Slots = append(sc.Slots, r.Intn(6))
		}
		nf := 1 + r.Intn(2)
		if thorough {
			nf = 1 + r.Intn(3)
		}
		for j := 0; j < nf; j++ {
			sc.Frames = append(sc.Frames, r.Bool(1, 3))
		}
		out = append(out, sc)
	}
	// a preload-hint request that has been looked up (or is about to take the mutex) while the
	// writer completes that part AND later ones: it must still be answered with its own part
	for _, streams := range []int{1, 2} {
		cfg := mcfg{Variant: "LL", SegCount: 7, Streams: streams}
		for _, h := range [][]bool{{true, false, false}, {true, false, false, true, false, false}} {
			s, err := quickSnapshot(cfg, h, work)
			if err != nil {
				*errs = append(*errs, err.Error())
				continue
			}
			for _, frames := range [][]bool{
				{false, false, false, false},                                   // two part rotations
				{false, false, false, false, false, false},                     // three
				{false, false, true, false, false},                             // a part, a segment, a part
				{false, false, false, false, true, false, false, false, false}, // ... and two segments later
			} {
				for k := 0; k < streams; k++ {
					out = append(out, scenario{Kind: "evict", Cfg: cfg, History: h,
						Reqs:   []areq{{Kind: "path", Stream: k, PKind: "part", ID: uint64(s.Streams[k].NextPartID)}},
						Frames: frames})
				}
			}
		}
	}
	// the advertised preload-hint URI requested while the writer is INSIDE the part's finalize
	// (parked in storage.Part.Writer(), muxer mutex held, part not yet published)
	for _, streams := range []int{1, 2} {
		cfg := mcfg{Variant: "LL", SegCount: 7, Streams: streams}
		for _, h := range [][]bool{{true, false, false}, {true, false, false, true, false, false}, {true, false, false, false, false}} {
			s, err := quickSnapshot(cfg, h, work)
			if err != nil {
				*errs = append(*errs, err.Error())
				continue
			}
			for _, frames := range [][]bool{{false, false}, {true}} { // a mid-segment part; the last part of a segment
				for gate := 0; gate < streams; gate++ {
					for k := gate; k < streams; k++ {
						for slot := 0; slot < 2; slot++ {
							out = append(out, scenario{Kind: "finalize", Cfg: cfg, History: h, GateAt: gate,
								Reqs:  []areq{{Kind: "path", Stream: k, PKind: "part", ID: uint64(s.Streams[k].NextPartID)}},
								Slots: []int{slot}, Frames: frames})
						}
					}
				}
			}
		}
	}
	// former F12: a preload-hint request, looked up, then overtaken by 8 segment rotations
	{
		cfg := mcfg{Variant: "LL", SegCount: 7, Streams: 1}
		h := []bool{true, false, false}
		s, err := quickSnapshot(cfg, h, work)
		if err == nil {
			var frames []bool
			for j := 0; j < 20; j++ {
				frames = append(frames, j%2 == 1)
			}
			out = append(out, scenario{Kind: "evict", Cfg: cfg, History: h,
				Reqs:   []areq{{Kind: "path", Stream: 0, PKind: "part", ID: uint64(s.Streams[0].NextPartID)}},
				Frames: frames})
		} else {
			*errs = append(*errs, err.Error())
		}
	}
	return out
}

// fixedCloseScens: legs that are part of every run
func fixedCloseScens(work string, errs *[]string) []scenario {
	var out []scenario
	// Close after a segment rotation whose init generation failed (no PPS ever arrives)
	for _, cfg := range []mcfg{
		{Variant: "FMP4", SegCount: 3, Streams: 1, Dir: true, NoParams: true},
		{Variant: "LL", SegCount: 7, Streams: 1, Dir: true, NoParams: true},
		{Variant: "LL", SegCount: 7, Streams: 2, Dir: true, NoParams: true},
		{Variant: "FMP4", SegCount: 3, Streams: 2, Dir: false, NoParams: true},
	} {
		for _, reqs := range [][]areq{nil, {{Kind: "media", Stream: 0}}, {{Kind: "multi"}, {Kind: "media", Stream: 0}}} {
			out = append(out, scenario{Kind: "initfail", Cfg: cfg, History: []bool{true, true, true, true}, Reqs: reqs})
		}
	}
	// Close (or one more rotation, then Close) after a preload-hint request found its part evicted
	for _, cfg := range []mcfg{{Variant: "LL", SegCount: 7, Streams: 1}, {Variant: "LL", SegCount: 7, Streams: 1, Dir: true},
		{Variant: "LL", SegCount: 7, Streams: 2}} {
		h := []bool{true, false, false}
		s, err := quickSnapshot(cfg, h, work)
		if err != nil {
			*errs = append(*errs, err.Error())
			continue
		}
		var frames []bool
		for j := 0; j < 2*(cfg.SegCount+2)+2; j++ {
			frames = append(frames, j%2 == 1)
		}
		for _, order := range []string{"close", "continue"} {
			for k := 0; k < cfg.Streams; k++ {
				out = append(out, scenario{Kind: "evictclose", Cfg: cfg, History: h, Order: order,
					Reqs: []areq{{Kind: "path", Stream: k, PKind: "part", ID: uint64(s.Streams[k].NextPartID)}}, Frames: frames})
			}
		}
	}
	return out
}

func genClose(seed uint64, n int, thorough bool, work string, errs *[]string) []scenario {
	var out []scenario
	type base struct {
		cfg mcfg
		h   []bool
		st  snapStream
	}
	hists := [][]bool{
		{},                                       // before data
		{true},                                   // one sample queued, nothing created
		{true, false},                            // first segment open, mid part
		{true, false, false},                     // mid segment, one part
		{true, false, false, true},               // one complete segment, open segment empty
		{true, false, false, true, false, false}, // content, mid segment
		{true, false, false, true, false, false, false},
		// more complete segments than SegmentCount: real segments have been evicted before Close
		// (their files must be gone as well when Close returns)
		{true, false, true, false, true, false, true, false, true, false},
		{true, false, true, false, true, false, true, false, true, false, true, false, true, false, true, false, true, false, true, false},
	}
	var bs []base
	cfgs := []mcfg{
		{Variant: "LL", SegCount: 7, Streams: 1}, {Variant: "LL", SegCount: 7, Streams: 2},
		{Variant: "LL", SegCount: 7, Streams: 1, Dir: true}, {Variant: "LL", SegCount: 7, Streams: 2, Dir: true},
		{Variant: "FMP4", SegCount: 3, Streams: 1}, {Variant: "FMP4", SegCount: 3, Streams: 2, Dir: true},
		{Variant: "MPEGTS", SegCount: 3, Streams: 1}, {Variant: "MPEGTS", SegCount: 3, Streams: 1, Dir: true},
	}
	for _, cfg := range cfgs {
		for _, h := range hists {
			s, err := quickSnapshot(cfg, h, work)
			if err != nil {
				*errs = append(*errs, err.Error())
				continue
			}
			bs = append(bs, base{cfg, h, s.Streams[0]})
		}
	}
	pendingKinds := func(b base) []areq {
		st := b.st
		var l []areq
		hc := hasContentSnap(b.cfg, st)
		nstreams := b.cfg.Streams
		if b.cfg.Variant == "MPEGTS" {
			nstreams = 1
		}
		if !hc {
			l = append(l, areq{Kind: "multi"})
			for k := 0; k < nstreams; k++ {
				l = append(l, areq{Kind: "media", Stream: k})
			}
		}
		if b.cfg.Variant == "LL" {
			next := uint64(st.NextSegmentID)
			if hc {
				for k := 0; k < nstreams; k++ {
					l = append(l, blockingReq(k, next, int(st.NextParts)), blockingReq(k, next+1, -1))
				}
			} else {
				l = append(l, blockingReq(0, next+1, -1)) // passes the range check only as next+1
			}
			if st.NextPartID > 0 {
				for k := 0; k < nstreams; k++ {
					l = append(l, areq{Kind: "path", Stream: k, PKind: "part", ID: uint64(st.NextPartID)})
				}
			}
		}
		return l
	}
	orders := []string{"recheck-first", "first-parked", "free"}
	// systematic: no pending request and one pending request of each kind, every order
	for _, b := range bs {
		for _, o := range orders {
			out = append(out, scenario{Kind: "close", Cfg: b.cfg, History: b.h, Order: o, PostProbes: true})
			if o == "free" && !thorough {
				continue
			}
			for _, rq := range pendingKinds(b) {
				out = append(out, scenario{Kind: "close", Cfg: b.cfg, History: b.h, Reqs: []areq{rq}, Order: o, PostProbes: true})
			}
		}
	}
	if len(out) > n*3/4 {
		// keep a spread of the systematic part
		r := rng.New(seed, 2999999)
		for i := len(out) - 1; i > 0; i-- {
			j := r.Intn(i + 1)
			out[i], out[j] = out[j], out[i]
		}
		out = out[:n*3/4]
	}
	// random mixes of 2-3 pending requests
	for i := 0; len(out) < n; i++ {
		r := rng.New(seed, uint64(3000000+i))
		b := bs[r.Intn(len(bs))]
		kinds := pendingKinds(b)
		if len(kinds) == 0 {
			continue
		}
		sc := scenario{Kind: "close", Cfg: b.cfg, History: b.h, Order: orders[r.Pick(3, 3, 1)], PostProbes: r.Bool(3, 4)}
		k := 2 + r.Intn(2)
		for j := 0; j < k; j++ {
			rq := kinds[r.Intn(len(kinds))]
			if len(rq.Query) > 0 {
				rq.Enc = pickEnc(r)
			}
			sc.Reqs = append(sc.Reqs, rq)
		}
		out = append(out, sc)
	}
	return out
}
