package main

import (
	"fmt"
	"io"
	"os"
	"regexp"
	"strconv"
	"strings"
	"sync/atomic"
	"time"

	gohlslib "github.com/bluenviron/gohlslib/v2"
	"github.com/bluenviron/gohlslib/v2/pkg/codecs"
	"github.com/bluenviron/gohlslib/v2/pkg/storage"
	"github.com/bluenviron/mediacommon/v2/pkg/codecs/mpeg4audio"
)

// baseline profile without POC (dts = pts); same vectors as /repo/muxer_test.go
var testSPS = []byte{
	0x67, 0x42, 0xc0, 0x28, 0xd9, 0x00, 0x78, 0x02,
	0x27, 0xe5, 0x84, 0x00, 0x00, 0x03, 0x00, 0x04,
	0x00, 0x00, 0x03, 0x00, 0xf0, 0x3c, 0x60, 0xc9,
	0x20,
}

var t0 = time.Date(2010, 1, 1, 1, 1, 1, 0, time.UTC)

type mcfg struct {
	Variant  string `json:"variant"` // LL FMP4 MPEGTS
	SegCount int    `json:"segcount"`
	Streams  int    `json:"streams"` // 1 = video, 2 = video + audio rendition
	Dir      bool   `json:"dir"`     // Directory storage
	// NoParams: the H264 track is declared without out-of-band parameters and the frames carry an
	// SPS but never a PPS: the init file cannot be generated, the first segment rotation fails
	NoParams bool `json:"noparams,omitempty"`
}

func (c mcfg) coqVariant() string { return c.Variant }

// abstract writer operations observed on the real muxer (mirror of wop)
type wop struct {
	K   string `json:"k"` // CreateFirst RotateParts RotateSegments Close
	Dur int64  `json:"dur,omitempty"`
}

func (o wop) coq() string {
	switch o.K {
	case "CreateFirst":
		return "WCreateFirst"
	case "RotateParts":
		return "WRotateParts"
	case "RotateSegments":
		return fmt.Sprintf("WRotateSegments %d", o.Dur)
	case "Close":
		return "WClose"
	}
	panic("wop")
}

func wopsCoq(l []wop) string {
	var s []string
	for _, o := range l {
		s = append(s, o.coq())
	}
	return "[" + strings.Join(s, "; ") + "]"
}

type driver struct {
	cfg    mcfg
	m      *gohlslib.Muxer
	vt, at *gohlslib.Track
	n      int // frames written
	dir    string
	ids    []string // stream ids by index
	prefix string
}

func newDriver(cfg mcfg, workdir string) (*driver, error) {
	d := &driver{cfg: cfg}
	d.vt = &gohlslib.Track{Codec: &codecs.H264{SPS: testSPS, PPS: []byte{0x08}}, ClockRate: 90000}
	if cfg.NoParams {
		d.vt = &gohlslib.Track{Codec: &codecs.H264{}, ClockRate: 90000}
	}
	tracks := []*gohlslib.Track{d.vt}
	if cfg.Streams == 2 {
		d.at = &gohlslib.Track{Codec: &codecs.MPEG4Audio{Config: mpeg4audio.Config{
			Type: 2, SampleRate: 44100, ChannelCount: 2}}, ClockRate: 44100}
		tracks = append(tracks, d.at)
	}
	var v gohlslib.MuxerVariant
	switch cfg.Variant {
	case "LL":
		v = gohlslib.MuxerVariantLowLatency
	case "FMP4":
		v = gohlslib.MuxerVariantFMP4
	case "MPEGTS":
		v = gohlslib.MuxerVariantMPEGTS
	}
	d.m = &gohlslib.Muxer{
		Variant:            v,
		SegmentCount:       cfg.SegCount,
		SegmentMinDuration: 1 * time.Millisecond,
		PartMinDuration:    400 * time.Millisecond,
		Tracks:             tracks,
		OnEncodeError:      func(error) {},
	}
	if cfg.Dir {
		dir, err := os.MkdirTemp(workdir, "mux")
		if err != nil {
			return nil, err
		}
		d.dir = dir
		d.m.Directory = dir
	}
	if err := d.m.Start(); err != nil {
		return nil, err
	}
	st := gohlslib.VerifSnapshot(d.m)
	d.prefix = st.Prefix
	for _, s := range st.Streams {
		d.ids = append(d.ids, s.ID)
	}
	return d, nil
}

// writeFrame writes video frame number d.n (250 ms apart: a part every second frame); idr chooses the NALU type.
func (d *driver) writeFrame(idr bool) error {
	j := d.n
	d.n++
	if d.at != nil && j >= 1 {
		err := d.m.WriteMPEG4Audio(d.at, t0.Add(time.Duration(j)*250*time.Millisecond), int64(j)*11025,
			[][]byte{{1, 2, 3, 4}})
		if err != nil {
			return err
		}
	}
	au := [][]byte{{1}}
	if idr {
		au = [][]byte{{5}}
		if j == 0 {
			au = [][]byte{testSPS, {8}, {5}}
		}
		if d.cfg.NoParams {
			au = [][]byte{testSPS, {5}} // SPS in-band, the PPS never arrives
		}
	}
	return d.m.WriteH264(d.vt, t0.Add(time.Duration(j)*250*time.Millisecond), int64(j)*22500, au)
}

// ---- storage gate: a yield point INSIDE the writer's part finalize ----
// muxerPart.finalize marshals the part into storage.Part.Writer(): the wrapper parks the writer
// there (muxer mutex held, part not yet published) when the gate is armed for that call.

type storageGate struct {
	armAt atomic.Int32 // park at the armAt-th Writer() call from now on; -1 = disarmed
	calls atomic.Int32
}

func (g *storageGate) arm(at int) {
	g.calls.Store(0)
	g.armAt.Store(int32(at))
}

type gateFactory struct {
	storage.Factory
	g *storageGate
}

func (f *gateFactory) NewFile(name string) (storage.File, error) {
	fi, err := f.Factory.NewFile(name)
	if err != nil {
		return nil, err
	}
	return &gateFile{File: fi, g: f.g}, nil
}

type gateFile struct {
	storage.File
	g *storageGate
}

func (f *gateFile) NewPart() storage.Part { return &gatePart{Part: f.File.NewPart(), g: f.g} }

type gatePart struct {
	storage.Part
	g *storageGate
}

func (p *gatePart) Writer() io.WriteSeeker {
	if at := p.g.armAt.Load(); at >= 0 {
		if n := p.g.calls.Add(1) - 1; n == at {
			p.g.armAt.Store(-1)
			dispatchHook("storage:part-writer")
		}
	}
	return p.Part.Writer()
}

// wrapStorage interposes the gate on every file created from now on.
func (d *driver) wrapStorage() *storageGate {
	g := &storageGate{}
	g.armAt.Store(-1)
	gohlslib.VerifWrapStorage(d.m, func(f storage.Factory) storage.Factory { return &gateFactory{Factory: f, g: g} })
	return g
}

// ---- snapshots ----

type snapStream struct {
	NextSegmentID, NextPartID, DeleteCount, Len, Gaps, TargetDuration int64
	HasNext                                                           bool
	NextParts                                                         int64
	Closed                                                            bool
	Durations                                                         []int64
}

type apath struct {
	Stream int    `json:"stream"`
	Kind   string `json:"kind"` // part seg
	ID     uint64 `json:"id"`
}

func (p apath) coq() string {
	if p.Kind == "part" {
		return fmt.Sprintf("PPart %d%%nat %d", p.Stream, p.ID)
	}
	return fmt.Sprintf("PSeg %d%%nat %d", p.Stream, p.ID)
}

type snapshot struct {
	Streams []snapStream
	Closed  bool
	Paths   []apath
}

var rePath = regexp.MustCompile(`^([0-9a-f]+)_([a-z]+[0-9]*)_(part|seg)(\d+)\.(mp4|ts)$`)

func (d *driver) streamIndex(id string) int {
	for i, s := range d.ids {
		if s == id {
			return i
		}
	}
	return -1
}

func (d *driver) snap() (snapshot, error) {
	st := gohlslib.VerifSnapshot(d.m)
	var out snapshot
	out.Closed = st.Closed
	for _, s := range st.Streams {
		ss := snapStream{
			NextSegmentID: int64(s.NextSegmentID), NextPartID: int64(s.NextPartID),
			DeleteCount: int64(s.SegmentDeleteCount), Len: int64(s.SegmentCount), Gaps: int64(s.Gaps),
			TargetDuration: int64(s.TargetDuration), HasNext: s.HasNextSegment,
			NextParts: int64(s.NextSegmentParts), Closed: s.Closed,
		}
		for _, x := range s.SegmentDurations {
			ss.Durations = append(ss.Durations, int64(x))
		}
		out.Streams = append(out.Streams, ss)
	}
	for _, p := range st.Paths {
		if p == "index.m3u8" || strings.HasSuffix(p, "_stream.m3u8") || strings.HasSuffix(p, "_init.mp4") {
			continue
		}
		m := rePath.FindStringSubmatch(p)
		if m == nil {
			return out, fmt.Errorf("unexpected path %q", p)
		}
		idx := d.streamIndex(m[2])
		if idx < 0 {
			return out, fmt.Errorf("path of unknown stream %q", p)
		}
		id, _ := strconv.ParseUint(m[4], 10, 64)
		out.Paths = append(out.Paths, apath{Stream: idx, Kind: m[3], ID: id})
	}
	return out, nil
}

func (s snapStream) coq() string {
	var ds []string
	for _, x := range s.Durations {
		ds = append(ds, strconv.FormatInt(x, 10))
	}
	return fmt.Sprintf("{| sn_nextSegmentID := %d; sn_nextPartID := %d; sn_deleteCount := %d; sn_len := %d; "+
		"sn_gaps := %d; sn_targetDuration := %d; sn_hasNext := %v; sn_nextParts := %d; sn_closed := %v; "+
		"sn_durations := [%s] |}", s.NextSegmentID, s.NextPartID, s.DeleteCount, s.Len, s.Gaps,
		s.TargetDuration, s.HasNext, s.NextParts, s.Closed, strings.Join(ds, "; "))
}

// ---- requests ----

type areq struct {
	Kind   string  `json:"kind"` // multi media path
	Stream int     `json:"stream,omitempty"`
	Query  []qitem `json:"query,omitempty"`
	Enc    uint64  `json:"enc,omitempty"`   // spelling of the raw query (rawQueryEnc); the decoded query is Query
	PKind  string  `json:"pkind,omitempty"` // part seg
	ID     uint64  `json:"id,omitempty"`
}

func (r areq) coq() string {
	switch r.Kind {
	case "multi":
		return "RqMulti"
	case "media":
		return fmt.Sprintf("RqMedia %d%%nat %s", r.Stream, qcoq(r.Query))
	default:
		return "RqPath (" + apath{Stream: r.Stream, Kind: r.PKind, ID: r.ID}.coq() + ")"
	}
}

func (d *driver) target(r areq) string {
	switch r.Kind {
	case "multi":
		return "/index.m3u8"
	case "media":
		t := "/" + d.ids[r.Stream] + "_stream.m3u8"
		if len(r.Query) > 0 {
			t += "?" + rawQueryEnc(r.Query, r.Enc)
		}
		return t
	default:
		ext := ".mp4"
		if r.PKind == "seg" && d.cfg.Variant == "MPEGTS" {
			ext = ".ts"
		}
		return "/" + d.prefix + "_" + d.ids[r.Stream] + "_" + r.PKind + strconv.FormatUint(r.ID, 10) + ext
	}
}

// observeOps turns the hook events and snapshots around one write call into abstract ops.
func observeOps(before, after snapshot, events []string) []wop {
	var ops []wop
	if len(before.Streams) > 0 && !before.Streams[0].HasNext && after.Streams[0].HasNext {
		ops = append(ops, wop{K: "CreateFirst"})
	}
	for _, e := range events {
		switch e {
		case "rotateParts:unlocked":
			ops = append(ops, wop{K: "RotateParts"})
		case "rotateSegments:unlocked":
			ds := after.Streams[0].Durations
			ops = append(ops, wop{K: "RotateSegments", Dur: ds[len(ds)-1]})
		}
	}
	return ops
}
