package main

import (
	"net/http"
	"net/http/httptest"
)

func newReq(target string) *http.Request { return httptest.NewRequest(http.MethodGet, target, nil) }
func newRW() *respWriter                 { return &respWriter{rec: httptest.NewRecorder()} }
