package main

import (
	"bytes"
	"encoding/json"
	"fmt"
	"os"
	"regexp"
	"strconv"
	"strings"
	"time"

	gohlslib "github.com/bluenviron/gohlslib/v2"
	"github.com/bluenviron/mediacommon/v2/pkg/formats/fmp4"
)

// ---- scenarios (also the replay format) ----

type scenario struct {
	Kind    string `json:"kind"` // seq sched close evict finalize
	Cfg     mcfg   `json:"cfg"`
	History []bool `json:"history"` // frames written before the phase: true = IDR
	// seq
	Probes []areq `json:"probes,omitempty"`
	// sched / close
	Reqs   []areq `json:"reqs,omitempty"`
	Slots  []int  `json:"slots,omitempty"`  // per requester, see runSched
	Frames []bool `json:"frames,omitempty"` // frames written during the concurrent phase
	// close
	Order      string `json:"order,omitempty"` // recheck-first first-parked free
	PostProbes bool   `json:"post_probes,omitempty"`
	// finalize: the writer is parked inside the GateAt-th part finalize of the rotation
	GateAt int `json:"gate_at,omitempty"`
}

type failure struct {
	Signature string          `json:"signature"`
	What      string          `json:"what"`
	Input     json.RawMessage `json:"input"`
}

type result struct {
	coq      string // one mcase term
	fails    []failure
	tags     []string // distribution
	nontriv  bool
	infraErr string
}

const watchdog = 10 * time.Second

func (sc scenario) json() json.RawMessage {
	j, _ := json.Marshal(sc)
	return j
}

func (r *result) fail(sc scenario, sig, what string) {
	r.fails = append(r.fails, failure{Signature: sig, What: what, Input: sc.json()})
}

// ---- helpers on queries ----

func qval(q []qitem, key string) string {
	for _, it := range q {
		if !it.Bad && it.K == key {
			return it.V
		}
	}
	return ""
}

var reDigits = regexp.MustCompile(`^[0-9]+$`)

// the oracle's own reading of an unsigned 64-bit decimal
func oracleUint(s string) (uint64, bool) {
	if !reDigits.MatchString(s) {
		return 0, false
	}
	s2 := strings.TrimLeft(s, "0")
	if len(s2) > 20 {
		return 0, false
	}
	v, err := strconv.ParseUint(s, 10, 64)
	if err != nil {
		return 0, false
	}
	return v, true
}

type msnReq struct {
	ok      bool // a well-formed blocking request
	badArgs bool // must be rejected with 400
	M       uint64
	P       *uint64
	delta   bool
}

func classifyMedia(q []qitem) msnReq {
	msn, part, skip := qval(q, "_HLS_msn"), qval(q, "_HLS_part"), qval(q, "_HLS_skip")
	r := msnReq{delta: skip == "YES" || skip == "v2"}
	var okM, okP bool
	if msn != "" {
		r.M, okM = oracleUint(msn)
		if !okM {
			r.badArgs = true
		}
	}
	if part != "" {
		var p uint64
		p, okP = oracleUint(part)
		if !okP {
			r.badArgs = true
		} else {
			r.P = &p
		}
		if msn == "" {
			r.badArgs = true
		}
	}
	if !r.badArgs && msn != "" {
		r.ok = true
	}
	return r
}

func hasBad(q []qitem) bool {
	for _, it := range q {
		if it.Bad {
			return true
		}
	}
	return false
}

// ---- observed outcome of one request ----

type outcome struct {
	Class  string // done waiting lockblocked notstarted lookedup
	Status int
	Wrote  bool
	Body   []byte
	Pl     *aplaylist
	PartID *uint64
	Waits  int
	Stamp  int // writer progress when it completed
}

func partSeq(body []byte) (*uint64, error) {
	var ps fmp4.Parts
	if err := ps.Unmarshal(body); err != nil {
		return nil, err
	}
	if len(ps) != 1 {
		return nil, fmt.Errorf("%d parts in body", len(ps))
	}
	v := uint64(ps[0].SequenceNumber)
	return &v, nil
}

func (o *outcome) fill(req areq, resp *response) error {
	o.Class, o.Status, o.Wrote, o.Body = "done", resp.Status, resp.Wrote, resp.Body
	if resp.Status == 200 && resp.Wrote {
		switch req.Kind {
		case "media":
			pl, err := parseMedia(string(resp.Body))
			if err != nil {
				return fmt.Errorf("playlist: %v\n%s", err, resp.Body)
			}
			o.Pl = pl
		case "path":
			if req.PKind == "part" {
				id, err := partSeq(resp.Body)
				if err != nil {
					return fmt.Errorf("part body: %v", err)
				}
				o.PartID = id
			}
		}
	}
	return nil
}

// Coq term of the expected probe outcome (sequential cases)
func (o *outcome) pout(req areq) string {
	switch o.Class {
	case "waiting":
		return "POBlock"
	case "done":
		switch {
		case o.Status == 400:
			return "PO400"
		case o.Status == 404:
			return "PO404"
		case o.Status == 500:
			return "PO500"
		case !o.Wrote:
			return "POEmpty"
		case o.Pl != nil:
			return "POPlaylist " + o.Pl.coq()
		case req.Kind == "multi":
			return "POMulti"
		case o.PartID != nil:
			return fmt.Sprintf("POPart %d%%nat %d", req.Stream, *o.PartID)
		case req.Kind == "path" && req.PKind == "seg":
			return fmt.Sprintf("POSeg %d%%nat %d", req.Stream, req.ID)
		}
	}
	return "POPanic"
}

// Coq term of the expected class (schedule cases)
func (o *outcome) eclass(req areq) string {
	switch o.Class {
	case "waiting":
		return "ECWaiting"
	case "lockblocked":
		return "ECLockBlocked"
	case "notstarted":
		return "ECNotStarted"
	case "lookedup":
		return "ECLookedUp"
	}
	body := "EBNone"
	switch {
	case o.Status != 200:
	case !o.Wrote:
		body = "EBEmpty"
	case o.Pl != nil:
		body = "(EBPlaylist " + o.Pl.coq() + ")"
	case req.Kind == "multi":
		body = "EBMulti"
	case o.PartID != nil:
		body = fmt.Sprintf("(EBPart %d%%nat %d)", req.Stream, *o.PartID)
	case req.Kind == "path" && req.PKind == "seg":
		body = fmt.Sprintf("(EBSeg %d%%nat %d)", req.Stream, req.ID)
	}
	return fmt.Sprintf("(ECDone %d %s)", o.Status, body)
}

// ---- direct (uncontrolled) requests from the harness's own goroutine ----

func (d *driver) direct(target string) *response {
	req := newReq(target)
	w := newRW()
	d.m.Handle(w, req)
	return &response{Status: w.rec.Code, Wrote: w.wrote, Body: w.rec.Body.Bytes()}
}

// refPlaylist fetches the plain playlist of stream k; only when it cannot block.
func (d *driver) refPlaylist(k int, s snapshot) (*aplaylist, error) {
	need := int64(1)
	if d.cfg.Variant == "FMP4" {
		need = 2
	}
	if s.Streams[k].Len < need || s.Streams[k].Closed || !gohlslib.VerifMutexFree(d.m) {
		return nil, nil
	}
	r := d.direct("/" + d.ids[k] + "_stream.m3u8")
	if r.Status != 200 {
		return nil, fmt.Errorf("reference playlist: status %d", r.Status)
	}
	return parseMedia(string(r.Body))
}

// ---- property oracles for one answered / sleeping media request (written from the text) ----

func sigBlocked(ref *aplaylist, mr msnReq) string {
	if ref.listed(mr.M) && ref.Segments[mr.M-uint64(ref.MediaSequence)].Gap {
		return "C06:blocks-although-published:listed-gap-msn"
	}
	if mr.P != nil && ref.listed(mr.M) && mr.M+1 == ref.openMSN() &&
		*mr.P >= uint64(len(ref.Segments[mr.M-uint64(ref.MediaSequence)].Parts)) {
		return "C06:blocks-although-published:part-past-end-of-last-complete-segment"
	}
	return "C06:blocks-although-published:other"
}

func (r *result) oracleMedia(sc scenario, req areq, o *outcome, ref *aplaylist, hasContent bool, when string) {
	mr := classifyMedia(req.Query)
	if sc.Cfg.Variant != "LL" {
		return
	}
	desc := fmt.Sprintf("%s: GET %s_stream.m3u8?%s", when, "stream"+strconv.Itoa(req.Stream), rawQueryEnc(req.Query, req.Enc))
	if mr.badArgs {
		if !(o.Class == "done" && o.Status == 400) {
			r.fail(sc, "C06:bad-args-not-rejected", desc+": _HLS_part without _HLS_msn / unparsable number must give 400, observed "+o.Class+" "+strconv.Itoa(o.Status))
		}
		return
	}
	if !hasContent || ref == nil {
		return // the property speaks about streams whose playlist is available
	}
	if o.Class == "done" && o.Status == 200 && o.Pl != nil {
		if len(o.Pl.hlsKeys) > 0 {
			sig := "C06:hls-directive-copied:other"
			if hasBad(req.Query) {
				sig = "C06:hls-directive-copied:query-parse-error"
			} else if strings.Contains(rawQueryEnc(req.Query, req.Enc), "%") {
				sig = "C06:hls-directive-copied:percent-encoded-key"
			}
			r.fail(sc, sig, desc+fmt.Sprintf(": URIs of the response carry %v", o.Pl.hlsKeys))
		}
		if mr.delta {
			// full playlist of the same instant with its first SKIPPED-SEGMENTS segments and the
			// map replaced by one skip tag
			ok := o.Pl.Skip != nil && !o.Pl.Map && ref.Map && ref.Skip == nil
			if ok {
				n := int(*o.Pl.Skip)
				ok = n >= 0 && n <= len(ref.Segments) && len(o.Pl.Segments) == len(ref.Segments)-n &&
					o.Pl.MediaSequence == ref.MediaSequence && o.Pl.TargetDuration == ref.TargetDuration
				if ok {
					a, _ := json.Marshal(append([]plentry{}, o.Pl.Segments...))
					b, _ := json.Marshal(append([]plentry{}, ref.Segments[n:]...))
					pa, _ := json.Marshal(append([]uint64{}, o.Pl.Parts...))
					pb, _ := json.Marshal(append([]uint64{}, ref.Parts...))
					ok = bytes.Equal(a, b) && bytes.Equal(pa, pb) && fmt.Sprint(deref(o.Pl.Hint)) == fmt.Sprint(deref(ref.Hint))
				}
			}
			if !ok {
				r.fail(sc, "C06:delta-shape", desc+": the _HLS_skip response is not the full playlist with its head replaced by EXT-X-SKIP")
			}
		} else if o.Pl.Skip != nil || !o.Pl.Map {
			r.fail(sc, "C06:delta-shape", desc+": EXT-X-SKIP / missing EXT-X-MAP without _HLS_skip=YES|v2")
		}
	}
	if !mr.ok {
		return
	}
	lastComplete := ref.openMSN() - 1
	switch {
	case o.Class == "done" && o.Status == 200:
		full := ref // containment is judged on the full playlist of the same instant
		if !full.contains(mr.M, mr.P) {
			sig := "C06:answered-early:other"
			if mr.P == nil && mr.M == ref.openMSN() {
				sig = "C06:answered-early:msn-of-open-segment-without-part"
			}
			r.fail(sc, sig, desc+fmt.Sprintf(": answered 200 although the playlist (media sequence %d, %d segments, %d trailing parts) does not contain what was asked",
				ref.MediaSequence, len(ref.Segments), len(ref.Parts)))
		}
	case o.Class == "done" && o.Status == 400:
		// an immediate 400 is for what cannot be satisfied: more than two past the last complete
		// segment, or already expired (no longer listed)
		tooFar := mr.M > lastComplete+2
		expired := mr.M < uint64(ref.MediaSequence)
		switch {
		case tooFar || expired:
		case mr.M == uint64(ref.MediaSequence) && ref.contains(mr.M, mr.P):
			// recorded finding F28: the code's range check excludes the head of the window
			r.fail(sc, "C06:400:head-of-window:listed-segment-rejected", desc+fmt.Sprintf(
				": 400 for msn %d, the FIRST LISTED segment (window %d..%d, open %d): it has not expired and the playlist of the same instant contains what was asked",
				mr.M, ref.MediaSequence, lastComplete, ref.openMSN()))
		default:
			r.fail(sc, "C06:rejected-satisfiable", desc+fmt.Sprintf(": 400 for msn %d (window %d..%d, open %d)", mr.M, ref.MediaSequence, lastComplete, ref.openMSN()))
		}
	case o.Class == "waiting":
		if ref.contains(mr.M, mr.P) {
			r.fail(sc, sigBlocked(ref, mr), desc+fmt.Sprintf(": blocks although the playlist of the same instant (media sequence %d, %d segments, %d trailing parts) contains what was asked",
				ref.MediaSequence, len(ref.Segments), len(ref.Parts)))
		} else if mr.M > lastComplete+2 || mr.M < uint64(ref.MediaSequence) {
			r.fail(sc, "C06:unsatisfiable-not-rejected", desc+": blocks although it cannot be satisfied (must be an immediate 400)")
		}
	}
}

func deref(p *uint64) interface{} {
	if p == nil {
		return nil
	}
	return *p
}

func cleanup(d *driver) {
	if d.dir != "" {
		os.RemoveAll(d.dir)
	}
}
