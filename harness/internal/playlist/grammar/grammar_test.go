package grammar

import (
	"reflect"
	"strings"
	"testing"
)

func sigs(vs []Violation) []string {
	var out []string
	for _, v := range vs {
		out = append(out, v.Signature())
	}
	return out
}

func dump(vs []Violation) string {
	var sb strings.Builder
	for _, v := range vs {
		sb.WriteString("\n  " + v.String())
	}
	return sb.String()
}

// ---------------------------------------------------------------------------
// valid playlists

const rfcSimpleMedia = `#EXTM3U
#EXT-X-TARGETDURATION:10
#EXT-X-VERSION:3
#EXTINF:9.009,
http://media.example.com/first.ts
#EXTINF:9.009,
http://media.example.com/second.ts
#EXTINF:3.003,
http://media.example.com/third.ts
#EXT-X-ENDLIST
`

const rfcLive = `#EXTM3U
#EXT-X-VERSION:3
#EXT-X-TARGETDURATION:8
#EXT-X-MEDIA-SEQUENCE:2680

#EXTINF:7.975,
https://priv.example.com/fileSequence2680.ts
#EXTINF:7.941,
https://priv.example.com/fileSequence2681.ts
#EXTINF:7.975,
https://priv.example.com/fileSequence2682.ts
`

const rfcEncrypted = `#EXTM3U
#EXT-X-VERSION:3
#EXT-X-MEDIA-SEQUENCE:7794
#EXT-X-TARGETDURATION:15

#EXT-X-KEY:METHOD=AES-128,URI="https://priv.example.com/key.php?r=52"

#EXTINF:2.833,
http://media.example.com/fileSequence52-A.ts
#EXTINF:15.0,
http://media.example.com/fileSequence52-B.ts
#EXTINF:13.333,
http://media.example.com/fileSequence52-C.ts

#EXT-X-KEY:METHOD=AES-128,URI="https://priv.example.com/key.php?r=53"

#EXTINF:15.0,
http://media.example.com/fileSequence53-A.ts
`

const rfcMaster = `#EXTM3U
#EXT-X-STREAM-INF:BANDWIDTH=1280000,AVERAGE-BANDWIDTH=1000000
http://example.com/low.m3u8
#EXT-X-STREAM-INF:BANDWIDTH=2560000,AVERAGE-BANDWIDTH=2000000
http://example.com/mid.m3u8
#EXT-X-STREAM-INF:BANDWIDTH=7680000,AVERAGE-BANDWIDTH=6000000
http://example.com/hi.m3u8
#EXT-X-STREAM-INF:BANDWIDTH=65000,CODECS="mp4a.40.5"
http://example.com/audio-only.m3u8
`

const rfcMasterIFrames = `#EXTM3U
#EXT-X-STREAM-INF:BANDWIDTH=1280000
low/audio-video.m3u8
#EXT-X-I-FRAME-STREAM-INF:BANDWIDTH=86000,URI="low/iframe.m3u8"
#EXT-X-STREAM-INF:BANDWIDTH=2560000
mid/audio-video.m3u8
#EXT-X-I-FRAME-STREAM-INF:BANDWIDTH=150000,URI="mid/iframe.m3u8"
#EXT-X-STREAM-INF:BANDWIDTH=7680000
hi/audio-video.m3u8
#EXT-X-I-FRAME-STREAM-INF:BANDWIDTH=550000,URI="hi/iframe.m3u8"
#EXT-X-STREAM-INF:BANDWIDTH=65000,CODECS="mp4a.40.5"
audio-only.m3u8
`

const rfcAltAudio = `#EXTM3U
#EXT-X-MEDIA:TYPE=AUDIO,GROUP-ID="aac",NAME="English",DEFAULT=YES,AUTOSELECT=YES,LANGUAGE="en",URI="main/english-audio.m3u8"
#EXT-X-MEDIA:TYPE=AUDIO,GROUP-ID="aac",NAME="Deutsch",DEFAULT=NO,AUTOSELECT=YES,LANGUAGE="de",URI="main/german-audio.m3u8"
#EXT-X-MEDIA:TYPE=AUDIO,GROUP-ID="aac",NAME="Commentary",DEFAULT=NO,AUTOSELECT=NO,LANGUAGE="en",URI="commentary/audio-only.m3u8"
#EXT-X-STREAM-INF:BANDWIDTH=1280000,CODECS="...",AUDIO="aac"
low/video-only.m3u8
#EXT-X-STREAM-INF:BANDWIDTH=2560000,CODECS="...",AUDIO="aac"
mid/video-only.m3u8
#EXT-X-STREAM-INF:BANDWIDTH=7680000,CODECS="...",AUDIO="aac"
hi/video-only.m3u8
#EXT-X-STREAM-INF:BANDWIDTH=65000,CODECS="mp4a.40.5",AUDIO="aac"
main/english-audio.m3u8
`

const rfcAltVideo = `#EXTM3U
#EXT-X-MEDIA:TYPE=VIDEO,GROUP-ID="low",NAME="Main",DEFAULT=YES,URI="low/main/audio-video.m3u8"
#EXT-X-MEDIA:TYPE=VIDEO,GROUP-ID="low",NAME="Centerfield",DEFAULT=NO,URI="low/centerfield/audio-video.m3u8"
#EXT-X-MEDIA:TYPE=VIDEO,GROUP-ID="low",NAME="Dugout",DEFAULT=NO,URI="low/dugout/audio-video.m3u8"

#EXT-X-STREAM-INF:BANDWIDTH=1280000,CODECS="...",VIDEO="low"
low/main/audio-video.m3u8

#EXT-X-MEDIA:TYPE=VIDEO,GROUP-ID="mid",NAME="Main",DEFAULT=YES,URI="mid/main/audio-video.m3u8"
#EXT-X-MEDIA:TYPE=VIDEO,GROUP-ID="mid",NAME="Centerfield",DEFAULT=NO,URI="mid/centerfield/audio-video.m3u8"
#EXT-X-MEDIA:TYPE=VIDEO,GROUP-ID="mid",NAME="Dugout",DEFAULT=NO,URI="mid/dugout/audio-video.m3u8"

#EXT-X-STREAM-INF:BANDWIDTH=2560000,CODECS="...",VIDEO="mid"
mid/main/audio-video.m3u8
`

// alternative audio + subtitles + closed captions, with blank lines between
// the header, the EXT-X-MEDIA block and the EXT-X-STREAM-INF block.
const masterSubsCC = `#EXTM3U
#EXT-X-VERSION:7
#EXT-X-INDEPENDENT-SEGMENTS

#EXT-X-MEDIA:TYPE=AUDIO,GROUP-ID="audio",NAME="English",LANGUAGE="en",DEFAULT=YES,AUTOSELECT=YES,CHANNELS="2",URI="audio_en.m3u8"
#EXT-X-MEDIA:TYPE=SUBTITLES,GROUP-ID="subs",NAME="English",LANGUAGE="en",DEFAULT=NO,AUTOSELECT=YES,FORCED=NO,CHARACTERISTICS="public.accessibility.transcribes-spoken-dialog",URI="subs_en.m3u8"
#EXT-X-MEDIA:TYPE=CLOSED-CAPTIONS,GROUP-ID="cc",NAME="CC1",LANGUAGE="en",INSTREAM-ID="CC1"

#EXT-X-STREAM-INF:BANDWIDTH=2560000,AVERAGE-BANDWIDTH=2000000,CODECS="avc1.640028,mp4a.40.2",RESOLUTION=1280x720,FRAME-RATE=29.970,HDCP-LEVEL=NONE,VIDEO-RANGE=SDR,AUDIO="audio",SUBTITLES="subs",CLOSED-CAPTIONS="cc"
video_720.m3u8
#EXT-X-STREAM-INF:BANDWIDTH=1280000,CODECS="avc1.4d401f,mp4a.40.2",RESOLUTION=640x360,AUDIO="audio",SUBTITLES="subs",CLOSED-CAPTIONS=NONE
video_360.m3u8

#EXT-X-I-FRAME-STREAM-INF:BANDWIDTH=86000,CODECS="avc1.640028",RESOLUTION=1280x720,URI="iframe_720.m3u8"
#EXT-X-SESSION-DATA:DATA-ID="com.example.title",VALUE="Example",LANGUAGE="en"
#EXT-X-SESSION-KEY:METHOD=SAMPLE-AES,URI="skd://key",KEYFORMAT="com.apple.streamingkeydelivery",KEYFORMATVERSIONS="1"
#EXT-X-CONTENT-STEERING:SERVER-URI="/steering?video=00012",PATHWAY-ID="CDN-A"
#EXT-X-START:TIME-OFFSET=-12.5,PRECISE=YES
`

const llhls = `#EXTM3U
#EXT-X-TARGETDURATION:4
#EXT-X-VERSION:9
#EXT-X-SERVER-CONTROL:CAN-BLOCK-RELOAD=YES,PART-HOLD-BACK=1.0,CAN-SKIP-UNTIL=24.0,CAN-SKIP-DATERANGES=YES,HOLD-BACK=12.0
#EXT-X-PART-INF:PART-TARGET=0.33334
#EXT-X-MEDIA-SEQUENCE:266
#EXT-X-SKIP:SKIPPED-SEGMENTS=3,RECENTLY-REMOVED-DATERANGES="ad1	ad2"
#EXT-X-MAP:URI="init.mp4",BYTERANGE="720@0"
#EXT-X-PROGRAM-DATE-TIME:2019-02-14T02:13:36.106Z
#EXTINF:4.00008,
fileSequence269.mp4
#EXTINF:4.00008,
fileSequence270.mp4
#EXT-X-BITRATE:1500
#EXT-X-PART:DURATION=0.33334,URI="filePart271.0.mp4",INDEPENDENT=YES
#EXT-X-PART:DURATION=0.33334,URI="filePart271.1.mp4",BYTERANGE="2000@100"
#EXT-X-PART:DURATION=0.33334,URI="filePart271.2.mp4",GAP=YES
#EXTINF:1.00002,
fileSequence271.mp4
#EXT-X-DISCONTINUITY
#EXT-X-PROGRAM-DATE-TIME:2019-02-14T02:14:00.106+01:00
#EXT-X-DATERANGE:ID="splice-6FFFFFF0",START-DATE="2019-02-14T02:14:00.106Z",PLANNED-DURATION=59.993,SCTE35-OUT=0xFC002F0000000000FF,X-COM-EXAMPLE-AD-ID="XYZ123"
#EXT-X-PART:DURATION=0.33334,URI="filePart272.a.mp4",INDEPENDENT=YES
#EXT-X-PART:DURATION=0.33334,URI="filePart272.b.mp4"
#EXT-X-PRELOAD-HINT:TYPE=PART,URI="filePart272.c.mp4",BYTERANGE-START=0,BYTERANGE-LENGTH=4000
#EXT-X-RENDITION-REPORT:URI="../1M/waitForMSN.php",LAST-MSN=272,LAST-PART=2
#EXT-X-RENDITION-REPORT:URI="../4M/waitForMSN.php",LAST-MSN=272,LAST-PART=1
`

const mediaMisc = `#EXTM3U
# a comment
#EXT-X-VERSION:6
#EXT-X-TARGETDURATION:10
#EXT-X-MEDIA-SEQUENCE:0
#EXT-X-DISCONTINUITY-SEQUENCE:3
#EXT-X-PLAYLIST-TYPE:VOD
#EXT-X-ALLOW-CACHE:YES
#EXT-X-INDEPENDENT-SEGMENTS
#EXT-X-I-FRAMES-ONLY
#EXT-X-START:TIME-OFFSET=0
#EXT-X-DEFINE:NAME="iv",VALUE="0x1234"
#EXT-X-KEY:METHOD=AES-128,URI="key",IV={$iv}
#EXT-X-MAP:URI="init.mp4"
#EXTINF:10,title with, commas and "quotes"
#EXT-X-BYTERANGE:1000@0
#EXT-X-PROGRAM-DATE-TIME:2024-02-29T23:59:60
seg.mp4
#EXT-X-KEY:METHOD=NONE
#EXT-X-GAP
#EXT-X-DISCONTINUITY
#EXTINF:9.5,
#EXT-X-BYTERANGE:1000
seg.mp4
#EXT-X-KEY:METHOD=SAMPLE-AES,URI="key2",IV=0x000102030405060708090A0B0C0D0E0F,KEYFORMAT="identity",KEYFORMATVERSIONS="1/2"
#EXTINF:9.5,
seg2.mp4?x=%20y
#EXT-X-ENDLIST
`

func TestValid(t *testing.T) {
	for _, tc := range []struct {
		name string
		in   string
		kind Kind
	}{
		{"rfc8216 8.1 simple media", rfcSimpleMedia, KindMedia},
		{"rfc8216 8.2 live", rfcLive, KindMedia},
		{"rfc8216 8.3 encrypted", rfcEncrypted, KindMedia},
		{"rfc8216 8.4 master", rfcMaster, KindMultivariant},
		{"rfc8216 8.5 master with i-frames", rfcMasterIFrames, KindMultivariant},
		{"rfc8216 8.6 alternative audio", rfcAltAudio, KindMultivariant},
		{"rfc8216 8.7 alternative video", rfcAltVideo, KindMultivariant},
		{"multivariant audio+subtitles+cc, blank lines between blocks", masterSubsCC, KindMultivariant},
		{"ll-hls", llhls, KindMedia},
		{"media misc", mediaMisc, KindMedia},
		{"crlf", strings.ReplaceAll(rfcEncrypted, "\n", "\r\n"), KindMedia},
		{"no final terminator", strings.TrimSuffix(rfcSimpleMedia, "\n"), KindMedia},
		{"crlf multivariant", strings.ReplaceAll(masterSubsCC, "\n", "\r\n"), KindMultivariant},
		{"header only", "#EXTM3U\n", KindUnknown},
		{"media with zero segments", "#EXTM3U\n#EXT-X-VERSION:3\n#EXT-X-TARGETDURATION:2\n#EXT-X-MEDIA-SEQUENCE:0\n", KindMedia},
		{"unknown attribute ignored", "#EXTM3U\n#EXT-X-STREAM-INF:BANDWIDTH=1,X-FOO=bar,PROGRAM-ID=1\na.m3u8\n", KindMultivariant},
		{"trailing key/map/daterange/part", "#EXTM3U\n#EXT-X-TARGETDURATION:2\n#EXTINF:2,\na.ts\n" +
			"#EXT-X-KEY:METHOD=NONE\n#EXT-X-MAP:URI=\"i\"\n#EXT-X-DATERANGE:ID=\"x\",START-DATE=\"2020-01-01T00:00:00Z\"\n" +
			"#EXT-X-PART:DURATION=1,URI=\"p\"\n", KindMedia},
		{"max decimal-integer", "#EXTM3U\n#EXT-X-TARGETDURATION:2\n#EXT-X-MEDIA-SEQUENCE:18446744073709551615\n", KindMedia},
	} {
		t.Run(tc.name, func(t *testing.T) {
			kind, vs := Check([]byte(tc.in))
			if kind != tc.kind {
				t.Errorf("kind = %v, want %v", kind, tc.kind)
			}
			if len(vs) != 0 {
				t.Errorf("unexpected violations:%s", dump(vs))
			}
		})
	}
}

// ---------------------------------------------------------------------------
// invalid playlists

const (
	mHead = "#EXTM3U\n#EXT-X-TARGETDURATION:10\n"
	mSeg  = "#EXTINF:5,\na.ts\n"
)

func TestInvalid(t *testing.T) {
	for _, tc := range []struct {
		name string
		in   string
		kind Kind
		want []string // exact list of signatures, in line order
	}{
		// header
		{"header: empty input", "", KindUnknown, []string{"header:EXTM3U"}},
		{"header: leading blank line", "\n" + mHead + mSeg, KindMedia, []string{"header:EXTM3U", "header:EXTM3U"}},
		{"header: BOM", "\xef\xbb\xbf" + mHead + mSeg, KindMedia, []string{"header:EXTM3U"}},
		{"header: trailing space", "#EXTM3U \n#EXT-X-TARGETDURATION:10\n", KindMedia, []string{"header:EXTM3U"}},
		{"header: missing", "#EXT-X-TARGETDURATION:10\n" + mSeg, KindMedia, []string{"header:EXTM3U"}},

		// unknown-tag
		{"unknown-tag", mHead + "#EXT-X-FOO:1\n" + mSeg, KindMedia, []string{"unknown-tag:EXT-X-FOO"}},
		{"unknown-tag without value", mHead + "#EXT-X-CUE-IN\n" + mSeg, KindMedia, []string{"unknown-tag:EXT-X-CUE-IN"}},

		// mixed-kind
		{"mixed-kind: media first", mHead + mSeg + "#EXT-X-STREAM-INF:BANDWIDTH=1\nb.m3u8\n", KindMedia, []string{"mixed-kind"}},
		{"mixed-kind: multivariant first", "#EXTM3U\n#EXT-X-STREAM-INF:BANDWIDTH=1\nb.m3u8\n#EXT-X-ENDLIST\n", KindMultivariant,
			[]string{"mixed-kind"}},

		// duplicate-tag
		{"duplicate-tag: EXTM3U", mHead + "#EXTM3U\n" + mSeg, KindMedia, []string{"duplicate-tag:EXTM3U"}},
		{"duplicate-tag: playlist-level", mHead + "#EXT-X-VERSION:3\n#EXT-X-VERSION:3\n#EXT-X-TARGETDURATION:10\n", KindMedia,
			[]string{"duplicate-tag:EXT-X-VERSION", "duplicate-tag:EXT-X-TARGETDURATION"}},
		{"duplicate-tag: server-control", mHead + "#EXT-X-SERVER-CONTROL:CAN-BLOCK-RELOAD=YES\n#EXT-X-SERVER-CONTROL:CAN-BLOCK-RELOAD=YES\n", KindMedia,
			[]string{"duplicate-tag:EXT-X-SERVER-CONTROL"}},
		{"duplicate-tag: per-segment EXTINF", mHead + "#EXTINF:5,\n#EXTINF:5,\na.ts\n", KindMedia, []string{"duplicate-tag:EXTINF"}},
		{"duplicate-tag: per-segment PDT", mHead + "#EXT-X-PROGRAM-DATE-TIME:2020-01-01T00:00:00Z\n#EXTINF:5,\n#EXT-X-PROGRAM-DATE-TIME:2020-01-01T00:00:00Z\na.ts\n",
			KindMedia, []string{"duplicate-tag:EXT-X-PROGRAM-DATE-TIME"}},
		{"duplicate-tag: endlist", mHead + mSeg + "#EXT-X-ENDLIST\n#EXT-X-ENDLIST\n", KindMedia, []string{"duplicate-tag:EXT-X-ENDLIST"}},

		// tag-value
		{"tag-value: value on no-value tag", mHead + mSeg + "#EXT-X-ENDLIST:\n", KindMedia, []string{"tag-value:EXT-X-ENDLIST"}},
		{"tag-value: trailing space on no-value tag", mHead + mSeg + "#EXT-X-ENDLIST \n", KindMedia, []string{"tag-value:EXT-X-ENDLIST"}},
		{"tag-value: missing value", "#EXTM3U\n#EXT-X-TARGETDURATION\n", KindMedia, []string{"tag-value:EXT-X-TARGETDURATION"}},
		{"tag-value: float targetduration", "#EXTM3U\n#EXT-X-TARGETDURATION:2.5\n", KindMedia, []string{"tag-value:EXT-X-TARGETDURATION"}},
		{"tag-value: negative integer", mHead + "#EXT-X-MEDIA-SEQUENCE:-1\n", KindMedia, []string{"tag-value:EXT-X-MEDIA-SEQUENCE"}},
		{"tag-value: integer too long", mHead + "#EXT-X-MEDIA-SEQUENCE:000000000000000000001\n", KindMedia, []string{"tag-value:EXT-X-MEDIA-SEQUENCE"}},
		{"tag-value: integer out of range", mHead + "#EXT-X-MEDIA-SEQUENCE:18446744073709551616\n", KindMedia, []string{"tag-value:EXT-X-MEDIA-SEQUENCE"}},
		{"tag-value: trailing space after integer", mHead + "#EXT-X-VERSION:3 \n", KindMedia, []string{"tag-value:EXT-X-VERSION"}},
		{"tag-value: playlist type", mHead + "#EXT-X-PLAYLIST-TYPE:LIVE\n", KindMedia, []string{"tag-value:EXT-X-PLAYLIST-TYPE"}},
		{"tag-value: allow-cache", mHead + "#EXT-X-ALLOW-CACHE:yes\n", KindMedia, []string{"tag-value:EXT-X-ALLOW-CACHE"}},
		{"tag-value: byterange", mHead + "#EXTINF:5,\n#EXT-X-BYTERANGE:10@\na.ts\n", KindMedia, []string{"tag-value:EXT-X-BYTERANGE"}},
		{"tag-value: EXTINF without comma", mHead + "#EXTINF:5\na.ts\n", KindMedia, []string{"tag-value:EXTINF"}},
		{"tag-value: EXTINF negative", mHead + "#EXTINF:-5,\na.ts\n", KindMedia, []string{"tag-value:EXTINF"}},
		{"tag-value: EXTINF exponent", mHead + "#EXTINF:5e0,\na.ts\n", KindMedia, []string{"tag-value:EXTINF"}},
		{"tag-value: EXTINF trailing dot", mHead + "#EXTINF:5.,\na.ts\n", KindMedia, []string{"tag-value:EXTINF"}},
		{"tag-value: EXTINF space before colon", mHead + "#EXTINF :5,\na.ts\n", KindMedia, []string{"tag-value:EXTINF"}},
		{"tag-value: PDT space separator", mHead + "#EXT-X-PROGRAM-DATE-TIME:2020-01-01 00:00:00Z\n" + mSeg, KindMedia, []string{"tag-value:EXT-X-PROGRAM-DATE-TIME"}},
		{"tag-value: PDT bad day", mHead + "#EXT-X-PROGRAM-DATE-TIME:2023-02-29T00:00:00Z\n" + mSeg, KindMedia, []string{"tag-value:EXT-X-PROGRAM-DATE-TIME"}},
		{"tag-value: PDT bad hour", mHead + "#EXT-X-PROGRAM-DATE-TIME:2023-02-28T25:00:00Z\n" + mSeg, KindMedia, []string{"tag-value:EXT-X-PROGRAM-DATE-TIME"}},
		{"tag-value: PDT bad zone", mHead + "#EXT-X-PROGRAM-DATE-TIME:2023-02-28T20:00:00+1:00\n" + mSeg, KindMedia, []string{"tag-value:EXT-X-PROGRAM-DATE-TIME"}},
		{"tag-value: PDT empty fraction", mHead + "#EXT-X-PROGRAM-DATE-TIME:2023-02-28T20:00:00.Z\n" + mSeg, KindMedia, []string{"tag-value:EXT-X-PROGRAM-DATE-TIME"}},
		{"tag-value: attr-list tag without colon", mHead + "#EXT-X-PART-INF\n", KindMedia, []string{"tag-value:EXT-X-PART-INF"}},

		// attr-list-syntax
		{"attr-list-syntax: leading comma", mHead + "#EXT-X-SERVER-CONTROL:,PART-HOLD-BACK=1.00000\n", KindMedia, []string{"attr-list-syntax:EXT-X-SERVER-CONTROL"}},
		{"attr-list-syntax: trailing comma", mHead + "#EXT-X-SERVER-CONTROL:PART-HOLD-BACK=1.00000,\n", KindMedia, []string{"attr-list-syntax:EXT-X-SERVER-CONTROL"}},
		{"attr-list-syntax: double comma", mHead + "#EXT-X-SERVER-CONTROL:CAN-BLOCK-RELOAD=YES,,PART-HOLD-BACK=1.00000\n", KindMedia, []string{"attr-list-syntax:EXT-X-SERVER-CONTROL"}},
		{"attr-list-syntax: empty list", mHead + "#EXT-X-SERVER-CONTROL:\n", KindMedia, []string{"attr-list-syntax:EXT-X-SERVER-CONTROL"}},
		{"attr-list-syntax: space after comma", mHead + "#EXT-X-SERVER-CONTROL:CAN-BLOCK-RELOAD=YES, PART-HOLD-BACK=1.0\n", KindMedia, []string{"attr-list-syntax:EXT-X-SERVER-CONTROL"}},
		{"attr-list-syntax: space before comma", mHead + "#EXT-X-SERVER-CONTROL:CAN-BLOCK-RELOAD=YES ,PART-HOLD-BACK=1.0\n", KindMedia, []string{"attr-list-syntax:EXT-X-SERVER-CONTROL"}},
		{"attr-list-syntax: space around =", mHead + "#EXT-X-PART-INF:PART-TARGET =1.0\n", KindMedia, []string{"attr-list-syntax:EXT-X-PART-INF"}},
		{"attr-list-syntax: space after =", mHead + "#EXT-X-PART-INF:PART-TARGET= 1.0\n", KindMedia, []string{"attr-list-syntax:EXT-X-PART-INF"}},
		{"attr-list-syntax: empty name", mHead + "#EXT-X-PART-INF:=1.0\n", KindMedia, []string{"attr-list-syntax:EXT-X-PART-INF"}},
		{"attr-list-syntax: empty value", mHead + "#EXT-X-PART-INF:PART-TARGET=\n", KindMedia, []string{"attr-list-syntax:EXT-X-PART-INF"}},
		{"attr-list-syntax: empty value before comma", mHead + "#EXT-X-PART:DURATION=,URI=\"a\"\n", KindMedia, []string{"attr-list-syntax:EXT-X-PART"}},
		{"attr-list-syntax: no =", mHead + "#EXT-X-PART-INF:PART-TARGET\n", KindMedia, []string{"attr-list-syntax:EXT-X-PART-INF"}},
		{"attr-list-syntax: lowercase name", mHead + "#EXT-X-PART-INF:part-target=1.0\n", KindMedia, []string{"attr-list-syntax:EXT-X-PART-INF"}},
		{"attr-list-syntax: unterminated quote", mHead + "#EXT-X-MAP:URI=\"init.mp4\n", KindMedia, []string{"attr-list-syntax:EXT-X-MAP"}},
		{"attr-list-syntax: text after closing quote", mHead + "#EXT-X-MAP:URI=\"init\"x\n", KindMedia, []string{"attr-list-syntax:EXT-X-MAP"}},
		{"attr-list-syntax: quote inside unquoted", mHead + "#EXT-X-MAP:URI=a\"b\"\n", KindMedia, []string{"attr-list-syntax:EXT-X-MAP"}},
		{"attr-list-syntax: CR inside quoted", mHead + "#EXT-X-MAP:URI=\"a\rb\"\n", KindMedia, []string{"attr-list-syntax:EXT-X-MAP"}},
		{"attr-list-syntax: trailing space", mHead + "#EXT-X-PART-INF:PART-TARGET=1.0 \n", KindMedia, []string{"attr-list-syntax:EXT-X-PART-INF"}},

		// duplicate-attr
		{"duplicate-attr", mHead + "#EXT-X-PART-INF:PART-TARGET=1.0,PART-TARGET=1.0\n", KindMedia, []string{"duplicate-attr:EXT-X-PART-INF:PART-TARGET"}},
		{"duplicate-attr: unknown attribute", "#EXTM3U\n#EXT-X-STREAM-INF:BANDWIDTH=1,X-A=1,X-A=2\na.m3u8\n", KindMultivariant, []string{"duplicate-attr:EXT-X-STREAM-INF:X-A"}},

		// attr-type
		{"attr-type: quoted integer", "#EXTM3U\n#EXT-X-STREAM-INF:BANDWIDTH=\"1\"\na.m3u8\n", KindMultivariant, []string{"attr-type:EXT-X-STREAM-INF:BANDWIDTH"}},
		{"attr-type: float for integer", "#EXTM3U\n#EXT-X-STREAM-INF:BANDWIDTH=1.5\na.m3u8\n", KindMultivariant, []string{"attr-type:EXT-X-STREAM-INF:BANDWIDTH"}},
		{"attr-type: unquoted string", "#EXTM3U\n#EXT-X-STREAM-INF:BANDWIDTH=1,CODECS=avc1\na.m3u8\n", KindMultivariant, []string{"attr-type:EXT-X-STREAM-INF:CODECS"}},
		{"attr-type: resolution", "#EXTM3U\n#EXT-X-STREAM-INF:BANDWIDTH=1,RESOLUTION=1280X720\na.m3u8\n", KindMultivariant, []string{"attr-type:EXT-X-STREAM-INF:RESOLUTION"}},
		{"attr-type: frame rate", "#EXTM3U\n#EXT-X-STREAM-INF:BANDWIDTH=1,FRAME-RATE=-30\na.m3u8\n", KindMultivariant, []string{"attr-type:EXT-X-STREAM-INF:FRAME-RATE"}},
		{"attr-type: video range", "#EXTM3U\n#EXT-X-STREAM-INF:BANDWIDTH=1,VIDEO-RANGE=\"SDR\"\na.m3u8\n", KindMultivariant, []string{"attr-type:EXT-X-STREAM-INF:VIDEO-RANGE"}},
		{"attr-type: hdcp level", "#EXTM3U\n#EXT-X-STREAM-INF:BANDWIDTH=1,HDCP-LEVEL=TYPE-2\na.m3u8\n", KindMultivariant, []string{"attr-type:EXT-X-STREAM-INF:HDCP-LEVEL"}},
		{"attr-type: closed captions", "#EXTM3U\n#EXT-X-STREAM-INF:BANDWIDTH=1,CLOSED-CAPTIONS=cc\na.m3u8\n", KindMultivariant, []string{"attr-type:EXT-X-STREAM-INF:CLOSED-CAPTIONS"}},
		{"attr-type: enum", mHead + "#EXT-X-SERVER-CONTROL:CAN-BLOCK-RELOAD=TRUE\n", KindMedia, []string{"attr-type:EXT-X-SERVER-CONTROL:CAN-BLOCK-RELOAD"}},
		{"attr-type: float exponent", mHead + "#EXT-X-SERVER-CONTROL:PART-HOLD-BACK=1e0\n", KindMedia, []string{"attr-type:EXT-X-SERVER-CONTROL:PART-HOLD-BACK"}},
		{"attr-type: float leading dot", mHead + "#EXT-X-PART-INF:PART-TARGET=.5\n", KindMedia, []string{"attr-type:EXT-X-PART-INF:PART-TARGET"}},
		{"attr-type: signed float", mHead + "#EXT-X-START:TIME-OFFSET=+1.0\n", KindMedia, []string{"attr-type:EXT-X-START:TIME-OFFSET"}},
		{"attr-type: key method", mHead + "#EXT-X-KEY:METHOD=AES-256,URI=\"k\"\n", KindMedia, []string{"attr-type:EXT-X-KEY:METHOD"}},
		{"attr-type: key iv", mHead + "#EXT-X-KEY:METHOD=AES-128,URI=\"k\",IV=1234\n", KindMedia, []string{"attr-type:EXT-X-KEY:IV"}},
		{"attr-type: key iv quoted", mHead + "#EXT-X-KEY:METHOD=AES-128,URI=\"k\",IV=\"0x1234\"\n", KindMedia, []string{"attr-type:EXT-X-KEY:IV"}},
		{"attr-type: key iv variable without define", mHead + "#EXT-X-KEY:METHOD=AES-128,URI=\"k\",IV={$iv}\n", KindMedia, []string{"attr-type:EXT-X-KEY:IV"}},
		{"attr-type: session key method none", "#EXTM3U\n#EXT-X-SESSION-KEY:METHOD=NONE,URI=\"k\"\n", KindMultivariant, []string{"attr-type:EXT-X-SESSION-KEY:METHOD"}},
		{"attr-type: map byterange content", mHead + "#EXT-X-MAP:URI=\"i\",BYTERANGE=\"10-20\"\n", KindMedia, []string{"attr-type:EXT-X-MAP:BYTERANGE"}},
		{"attr-type: preload hint type", mHead + "#EXT-X-PRELOAD-HINT:TYPE=SEGMENT,URI=\"u\"\n", KindMedia, []string{"attr-type:EXT-X-PRELOAD-HINT:TYPE"}},
		{"attr-type: rendition report msn", mHead + "#EXT-X-RENDITION-REPORT:URI=\"u\",LAST-MSN=\"1\"\n", KindMedia, []string{"attr-type:EXT-X-RENDITION-REPORT:LAST-MSN"}},
		{"attr-type: skip", mHead + "#EXT-X-SKIP:SKIPPED-SEGMENTS=1.0\n", KindMedia, []string{"attr-type:EXT-X-SKIP:SKIPPED-SEGMENTS"}},
		{"attr-type: media type", "#EXTM3U\n#EXT-X-MEDIA:TYPE=TEXT,GROUP-ID=\"g\",NAME=\"n\"\n", KindMultivariant, []string{"attr-type:EXT-X-MEDIA:TYPE"}},
		{"attr-type: media default", "#EXTM3U\n#EXT-X-MEDIA:TYPE=AUDIO,GROUP-ID=\"g\",NAME=\"n\",DEFAULT=\"YES\"\n", KindMultivariant, []string{"attr-type:EXT-X-MEDIA:DEFAULT"}},
		{"attr-type: part duration", mHead + "#EXT-X-PART:DURATION=\"1\",URI=\"p\"\n", KindMedia, []string{"attr-type:EXT-X-PART:DURATION"}},

		// attr-type-*-byterange-unquoted
		{"map byterange unquoted", mHead + "#EXT-X-MAP:URI=\"i\",BYTERANGE=720@0\n", KindMedia, []string{"attr-type-map-byterange-unquoted:EXT-X-MAP:BYTERANGE"}},
		{"part byterange unquoted", mHead + "#EXT-X-PART:DURATION=1,URI=\"p\",BYTERANGE=720@0\n", KindMedia, []string{"attr-type-part-byterange-unquoted:EXT-X-PART:BYTERANGE"}},
		{"map byterange unquoted and malformed", mHead + "#EXT-X-MAP:URI=\"i\",BYTERANGE=720-0\n", KindMedia,
			[]string{"attr-type-map-byterange-unquoted:EXT-X-MAP:BYTERANGE", "attr-type:EXT-X-MAP:BYTERANGE"}},

		// attr-required
		{"attr-required: key method", mHead + "#EXT-X-KEY:URI=\"k\"\n", KindMedia, []string{"attr-required:EXT-X-KEY:METHOD"}},
		{"attr-required: key uri", mHead + "#EXT-X-KEY:METHOD=AES-128\n", KindMedia, []string{"attr-required:EXT-X-KEY:URI"}},
		{"attr-required: map uri", mHead + "#EXT-X-MAP:BYTERANGE=\"1@0\"\n", KindMedia, []string{"attr-required:EXT-X-MAP:URI"}},
		{"attr-required: part", mHead + "#EXT-X-PART:INDEPENDENT=YES\n", KindMedia, []string{"attr-required:EXT-X-PART:URI", "attr-required:EXT-X-PART:DURATION"}},
		{"attr-required: part-inf", mHead + "#EXT-X-PART-INF:X-FOO=1\n", KindMedia, []string{"attr-required:EXT-X-PART-INF:PART-TARGET"}},
		{"attr-required: skip", mHead + "#EXT-X-SKIP:RECENTLY-REMOVED-DATERANGES=\"a\"\n", KindMedia, []string{"attr-required:EXT-X-SKIP:SKIPPED-SEGMENTS"}},
		{"attr-required: preload hint", mHead + "#EXT-X-PRELOAD-HINT:BYTERANGE-START=0\n", KindMedia, []string{"attr-required:EXT-X-PRELOAD-HINT:TYPE", "attr-required:EXT-X-PRELOAD-HINT:URI"}},
		{"attr-required: start", mHead + "#EXT-X-START:PRECISE=YES\n", KindMedia, []string{"attr-required:EXT-X-START:TIME-OFFSET"}},
		{"attr-required: media", "#EXTM3U\n#EXT-X-MEDIA:URI=\"u\"\n", KindMultivariant,
			[]string{"attr-required:EXT-X-MEDIA:TYPE", "attr-required:EXT-X-MEDIA:GROUP-ID", "attr-required:EXT-X-MEDIA:NAME"}},
		{"attr-required: media cc instream-id", "#EXTM3U\n#EXT-X-MEDIA:TYPE=CLOSED-CAPTIONS,GROUP-ID=\"g\",NAME=\"n\"\n", KindMultivariant,
			[]string{"attr-required:EXT-X-MEDIA:INSTREAM-ID"}},
		{"attr-required: media subtitles uri", "#EXTM3U\n#EXT-X-MEDIA:TYPE=SUBTITLES,GROUP-ID=\"g\",NAME=\"n\"\n", KindMultivariant,
			[]string{"attr-required:EXT-X-MEDIA:URI"}},
		{"attr-required: stream-inf bandwidth", "#EXTM3U\n#EXT-X-STREAM-INF:CODECS=\"a\"\na.m3u8\n", KindMultivariant, []string{"attr-required:EXT-X-STREAM-INF:BANDWIDTH"}},
		{"attr-required: i-frame-stream-inf uri", "#EXTM3U\n#EXT-X-I-FRAME-STREAM-INF:BANDWIDTH=1\n", KindMultivariant, []string{"attr-required:EXT-X-I-FRAME-STREAM-INF:URI"}},
		{"attr-required: session-data", "#EXTM3U\n#EXT-X-SESSION-DATA:DATA-ID=\"d\"\n", KindMultivariant, []string{"attr-required:EXT-X-SESSION-DATA:VALUE"}},

		// attr-forbidden
		{"attr-forbidden: METHOD=NONE with URI", mHead + "#EXT-X-KEY:METHOD=NONE,URI=\"k\"\n", KindMedia, []string{"attr-forbidden:EXT-X-KEY:URI"}},
		{"attr-forbidden: cc with URI", "#EXTM3U\n#EXT-X-MEDIA:TYPE=CLOSED-CAPTIONS,GROUP-ID=\"g\",NAME=\"n\",INSTREAM-ID=\"CC1\",URI=\"u\"\n", KindMultivariant,
			[]string{"attr-forbidden:EXT-X-MEDIA:URI"}},
		{"attr-forbidden: audio with INSTREAM-ID", "#EXTM3U\n#EXT-X-MEDIA:TYPE=AUDIO,GROUP-ID=\"g\",NAME=\"n\",INSTREAM-ID=\"CC1\"\n", KindMultivariant,
			[]string{"attr-forbidden:EXT-X-MEDIA:INSTREAM-ID"}},
		{"attr-forbidden: session-data VALUE and URI", "#EXTM3U\n#EXT-X-SESSION-DATA:DATA-ID=\"d\",VALUE=\"v\",URI=\"u\"\n", KindMultivariant,
			[]string{"attr-forbidden:EXT-X-SESSION-DATA:URI"}},

		// uri-without-extinf
		{"uri-without-extinf", mHead + mSeg + "b.ts\n", KindMedia, []string{"uri-without-extinf"}},
		{"uri-without-extinf: only other segment tags", mHead + "#EXT-X-DISCONTINUITY\nb.ts\n", KindMedia, []string{"uri-without-extinf"}},
		{"uri-without-extinf: unknown kind", "#EXTM3U\nb.ts\n", KindUnknown, []string{"uri-without-extinf"}},

		// uri-without-stream-inf / stream-inf-without-uri
		{"uri-without-stream-inf", "#EXTM3U\n#EXT-X-STREAM-INF:BANDWIDTH=1\na.m3u8\nb.m3u8\n", KindMultivariant, []string{"uri-without-stream-inf"}},
		{"blank line between stream-inf and uri", "#EXTM3U\n#EXT-X-STREAM-INF:BANDWIDTH=1\n\na.m3u8\n", KindMultivariant,
			[]string{"stream-inf-without-uri:EXT-X-STREAM-INF", "uri-without-stream-inf"}},
		{"comment between stream-inf and uri", "#EXTM3U\n#EXT-X-STREAM-INF:BANDWIDTH=1\n# c\na.m3u8\n", KindMultivariant,
			[]string{"stream-inf-without-uri:EXT-X-STREAM-INF", "uri-without-stream-inf"}},
		{"stream-inf-without-uri: two in a row", "#EXTM3U\n#EXT-X-STREAM-INF:BANDWIDTH=1\n#EXT-X-STREAM-INF:BANDWIDTH=2\na.m3u8\n", KindMultivariant,
			[]string{"stream-inf-without-uri:EXT-X-STREAM-INF"}},
		{"stream-inf-without-uri: at end", "#EXTM3U\n#EXT-X-STREAM-INF:BANDWIDTH=1\n", KindMultivariant, []string{"stream-inf-without-uri:EXT-X-STREAM-INF"}},

		// segment-tag-without-uri
		{"segment-tag-without-uri: EXTINF", mHead + mSeg + "#EXTINF:5,\n", KindMedia, []string{"segment-tag-without-uri:EXTINF"}},
		{"segment-tag-without-uri: several", mHead + mSeg + "#EXT-X-DISCONTINUITY\n#EXT-X-PROGRAM-DATE-TIME:2020-01-01T00:00:00Z\n#EXT-X-ENDLIST\n", KindMedia,
			[]string{"segment-tag-without-uri:EXT-X-DISCONTINUITY", "segment-tag-without-uri:EXT-X-PROGRAM-DATE-TIME"}},
		{"segment-tag-without-uri: EXTINF before trailing parts", mHead + mSeg + "#EXT-X-PROGRAM-DATE-TIME:2020-01-01T00:00:00Z\n#EXTINF:5,\n#EXT-X-PART:DURATION=1,URI=\"p\"\n", KindMedia,
			[]string{"segment-tag-without-uri:EXTINF"}},

		// required-tag
		{"required-tag", "#EXTM3U\n#EXT-X-VERSION:3\n" + mSeg, KindMedia, []string{"required-tag:EXT-X-TARGETDURATION"}},

		// whitespace-line / uri-syntax
		{"whitespace-line", mHead + "  \n" + mSeg, KindMedia, []string{"whitespace-line"}},
		{"uri-syntax: space", mHead + "#EXTINF:5,\na b.ts\n", KindMedia, []string{"uri-syntax"}},
		{"uri-syntax: indented tag is a uri", mHead + " #EXT-X-ENDLIST\n", KindMedia, []string{"uri-syntax", "uri-without-extinf"}},
	} {
		t.Run(tc.name, func(t *testing.T) {
			kind, vs := Check([]byte(tc.in))
			if kind != tc.kind {
				t.Errorf("kind = %v, want %v", kind, tc.kind)
			}
			if got := sigs(vs); !reflect.DeepEqual(got, tc.want) {
				t.Errorf("signatures = %q, want %q; violations:%s", got, tc.want, dump(vs))
			}
			for _, v := range vs {
				if v.Line < 1 || v.Detail == "" {
					t.Errorf("violation without line or detail: %+v", v)
				}
			}
		})
	}
}

// The specific case called out by the oracle's caller.
func TestServerControlLeadingComma(t *testing.T) {
	in := "#EXTM3U\n#EXT-X-VERSION:9\n#EXT-X-TARGETDURATION:2\n#EXT-X-SERVER-CONTROL:,PART-HOLD-BACK=1.00000\n"
	kind, vs := Check([]byte(in))
	if kind != KindMedia {
		t.Errorf("kind = %v", kind)
	}
	if len(vs) != 1 {
		t.Fatalf("want one violation, got:%s", dump(vs))
	}
	v := vs[0]
	if v.Rule != "attr-list-syntax" || v.Tag != "EXT-X-SERVER-CONTROL" || v.Attr != "" || v.Line != 4 {
		t.Errorf("got %+v", v)
	}
	if v.Signature() != "attr-list-syntax:EXT-X-SERVER-CONTROL" {
		t.Errorf("signature = %q", v.Signature())
	}
}

func TestSignature(t *testing.T) {
	for _, tc := range []struct {
		v    Violation
		want string
	}{
		{Violation{Rule: "mixed-kind"}, "mixed-kind"},
		{Violation{Rule: "tag-value", Tag: "EXTINF"}, "tag-value:EXTINF"},
		{Violation{Rule: "attr-type", Tag: "EXT-X-KEY", Attr: "IV"}, "attr-type:EXT-X-KEY:IV"},
	} {
		if got := tc.v.Signature(); got != tc.want {
			t.Errorf("Signature(%+v) = %q, want %q", tc.v, got, tc.want)
		}
	}
}

func TestLineNumbers(t *testing.T) {
	in := "#EXTM3U\r\n#EXT-X-TARGETDURATION:10\r\n\r\n#EXTINF:5\r\na.ts\r\nb.ts"
	_, vs := Check([]byte(in))
	want := []struct {
		sig  string
		line int
	}{{"tag-value:EXTINF", 4}, {"uri-without-extinf", 6}}
	if len(vs) != len(want) {
		t.Fatalf("got:%s", dump(vs))
	}
	for i, w := range want {
		if vs[i].Signature() != w.sig || vs[i].Line != w.line {
			t.Errorf("violation %d = %v, want %s at line %d", i, vs[i], w.sig, w.line)
		}
	}
}

// Every rule id is exercised by at least one negative test above; this guards
// the Rules list against drifting from the implementation.
func TestRulesListed(t *testing.T) {
	seen := map[string]bool{}
	for _, r := range Rules {
		if seen[r] {
			t.Errorf("rule %q listed twice", r)
		}
		seen[r] = true
	}
	if len(Rules) != 19 {
		t.Errorf("len(Rules) = %d", len(Rules))
	}
}

func TestDateTime(t *testing.T) {
	for s, want := range map[string]bool{
		"2010-02-19T14:54:23.031+08:00": true,
		"2010-02-19T14:54:23.031+0800":  true,
		"2010-02-19T14:54:23.031-08":    true,
		"2010-02-19T14:54:23Z":          true,
		"2010-02-19T14:54:23":           true, // zone is SHOULD, not MUST
		"2010-02-19T14:54:23,5Z":        true, // ISO 8601 comma decimal sign
		"2010-02-19T24:00:00Z":          true,
		"2010-02-19T24:00:01Z":          false,
		"2010-02-19T14:60:23Z":          false,
		"2010-02-19T14:54:61Z":          false,
		"2010-13-19T14:54:23Z":          false,
		"2010-00-19T14:54:23Z":          false,
		"2010-04-31T14:54:23Z":          false,
		"2000-02-29T14:54:23Z":          true,
		"1900-02-29T14:54:23Z":          false,
		"2010-02-19t14:54:23Z":          false,
		"2010-02-19T14:54:23z":          false,
		"2010-02-19T14:54:23+24:00":     false,
		"2010-02-19T14:54:23+08:60":     false,
		"2010-02-19T14:54:23+08:0":      false,
		"2010-02-19T14:54Z":             false,
		"20100219T145423Z":              false,
		"2010-02-19":                    false,
		"":                              false,
	} {
		if got := isDateTime(s); got != want {
			t.Errorf("isDateTime(%q) = %v, want %v", s, got, want)
		}
	}
}

// Check must never panic, whatever the input: run it on every prefix of the
// valid examples and on single-byte corruptions of one of them.
func TestNoPanic(t *testing.T) {
	for _, in := range []string{rfcEncrypted, masterSubsCC, llhls, mediaMisc} {
		for i := 0; i <= len(in); i++ {
			Check([]byte(in[:i]))
		}
	}
	b := []byte(llhls)
	for i := range b {
		for _, c := range []byte{0, '"', ',', '=', ':', '\r', '\n', ' ', '#', 0xff} {
			old := b[i]
			b[i] = c
			Check(b)
			b[i] = old
		}
	}
}
