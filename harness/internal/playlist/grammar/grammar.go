// Package grammar is an independent, strict line-grammar checker for HLS
// playlists, written from the text of RFC 8216 and
// draft-pantos-hls-rfc8216bis. It is meant to be used as a test oracle on the
// output of a playlist encoder: it shares no code with any HLS library and
// imports nothing but the Go standard library.
//
// The checker is lexical/structural only. It does not resolve URIs, does not
// check durations against EXT-X-TARGETDURATION, and does not check
// cross-playlist consistency.
package grammar

import (
	"fmt"
	"sort"
	"strconv"
	"strings"
)

// Violation is one grammar violation.
type Violation struct {
	Rule   string // stable rule id
	Tag    string // tag name without '#', "" if not tag-specific
	Attr   string // attribute name if attribute-specific, else ""
	Line   int    // 1-based line number
	Detail string // human-readable
}

// Signature returns a stable string "rule[:tag[:attr]]".
func (v Violation) Signature() string {
	s := v.Rule
	if v.Tag != "" || v.Attr != "" {
		s += ":" + v.Tag
	}
	if v.Attr != "" {
		s += ":" + v.Attr
	}
	return s
}

func (v Violation) String() string {
	return fmt.Sprintf("line %d: %s: %s", v.Line, v.Signature(), v.Detail)
}

// Kind is the playlist kind.
type Kind int

// Playlist kinds.
const (
	KindUnknown Kind = iota
	KindMedia
	KindMultivariant
)

func (k Kind) String() string {
	switch k {
	case KindMedia:
		return "media"
	case KindMultivariant:
		return "multivariant"
	}
	return "unknown"
}

// Rule ids.
const (
	RuleHeader                   = "header"
	RuleUnknownTag               = "unknown-tag"
	RuleMixedKind                = "mixed-kind"
	RuleDuplicateTag             = "duplicate-tag"
	RuleTagValue                 = "tag-value"
	RuleAttrListSyntax           = "attr-list-syntax"
	RuleDuplicateAttr            = "duplicate-attr"
	RuleAttrType                 = "attr-type"
	RuleAttrTypeMapByteRangeUnq  = "attr-type-map-byterange-unquoted"
	RuleAttrTypePartByteRangeUnq = "attr-type-part-byterange-unquoted"
	RuleAttrRequired             = "attr-required"
	RuleAttrForbidden            = "attr-forbidden"
	RuleURIWithoutExtinf         = "uri-without-extinf"
	RuleURIWithoutStreamInf      = "uri-without-stream-inf"
	RuleStreamInfWithoutURI      = "stream-inf-without-uri"
	RuleSegmentTagWithoutURI     = "segment-tag-without-uri"
	RuleRequiredTag              = "required-tag"
	RuleWhitespaceLine           = "whitespace-line"
	RuleURISyntax                = "uri-syntax"
)

// Rules lists every rule id that Check can report.
var Rules = []string{
	RuleHeader, RuleUnknownTag, RuleMixedKind, RuleDuplicateTag, RuleTagValue,
	RuleAttrListSyntax, RuleDuplicateAttr, RuleAttrType,
	RuleAttrTypeMapByteRangeUnq, RuleAttrTypePartByteRangeUnq,
	RuleAttrRequired, RuleAttrForbidden,
	RuleURIWithoutExtinf, RuleURIWithoutStreamInf, RuleStreamInfWithoutURI,
	RuleSegmentTagWithoutURI, RuleRequiredTag,
	RuleWhitespaceLine, RuleURISyntax,
}

const (
	tagEXTM3U          = "EXTM3U"
	tagStreamInf       = "EXT-X-STREAM-INF"
	tagPart            = "EXT-X-PART"
	tagDefine          = "EXT-X-DEFINE"
	tagTargetDuration  = "EXT-X-TARGETDURATION"
	tagExtinf          = "EXTINF"
	tagByteRange       = "EXT-X-BYTERANGE"
	tagDiscontinuity   = "EXT-X-DISCONTINUITY"
	tagGap             = "EXT-X-GAP"
	tagProgramDateTime = "EXT-X-PROGRAM-DATE-TIME"
	tagBitrate         = "EXT-X-BITRATE"

	maxDecimalIntegerLen  = 20
	asciiWhitespace       = " \t\r\n\v\f"
	attrNameChars         = "ABCDEFGHIJKLMNOPQRSTUVWXYZ0123456789-"
	hexDigits             = "0123456789abcdefABCDEF"
	variableReferenceOpen = "{$"
	byteOrderMark         = "\xef\xbb\xbf"
	extPrefix             = "#EXT"
	extm3uLine            = "#EXTM3U"
)

// ---------------------------------------------------------------------------
// tag and attribute tables

type tagClass int

const (
	clsBasic tagClass = iota
	clsSegment
	clsMediaPlaylist
	clsMultivariant
	clsEither
)

type valueKind int

const (
	valNone valueKind = iota
	valInt
	valPlaylistType
	valYesNo
	valByteRange
	valDateTime
	valExtinf
	valAttrList
)

type attrType int

const (
	atInt attrType = iota
	atFloat
	atSignedFloat
	atQuoted
	atEnum // unquoted; from enum set if non-empty
	atResolution
	atHex
	atQuotedByteRange // quoted-string containing n[@o]
	atQuotedOrNone    // quoted-string or the enumerated-string NONE
)

type attrSpec struct {
	typ  attrType
	enum []string
}

type tagSpec struct {
	class      tagClass
	value      valueKind
	once       bool // at most once per playlist
	perSegment bool // at most once between two URI lines, and needs a following URI line
	attrs      map[string]attrSpec
	required   []string // unconditionally required attributes
}

var (
	enumYesNo = []string{"YES", "NO"}

	aInt      = attrSpec{typ: atInt}
	aFloat    = attrSpec{typ: atFloat}
	aSFloat   = attrSpec{typ: atSignedFloat}
	aQuoted   = attrSpec{typ: atQuoted}
	aYesNo    = attrSpec{typ: atEnum, enum: enumYesNo}
	aHex      = attrSpec{typ: atHex}
	aRes      = attrSpec{typ: atResolution}
	aQByteRng = attrSpec{typ: atQuotedByteRange}
)

func enum(vals ...string) attrSpec { return attrSpec{typ: atEnum, enum: vals} }

func keyAttrs(methods ...string) map[string]attrSpec {
	return map[string]attrSpec{
		"METHOD":            enum(methods...),
		"URI":               aQuoted,
		"IV":                aHex,
		"KEYFORMAT":         aQuoted,
		"KEYFORMATVERSIONS": aQuoted,
	}
}

func streamInfAttrs(iframe bool) map[string]attrSpec {
	m := map[string]attrSpec{
		"BANDWIDTH":           aInt,
		"AVERAGE-BANDWIDTH":   aInt,
		"SCORE":               aFloat,
		"CODECS":              aQuoted,
		"SUPPLEMENTAL-CODECS": aQuoted,
		"RESOLUTION":          aRes,
		"FRAME-RATE":          aFloat,
		"HDCP-LEVEL":          enum("TYPE-0", "TYPE-1", "NONE"),
		"ALLOWED-CPC":         aQuoted,
		"VIDEO-RANGE":         enum("SDR", "HLG", "PQ"),
		"STABLE-VARIANT-ID":   aQuoted,
		"PATHWAY-ID":          aQuoted,
		"AUDIO":               aQuoted,
		"VIDEO":               aQuoted,
		"SUBTITLES":           aQuoted,
		"CLOSED-CAPTIONS":     {typ: atQuotedOrNone},
	}
	if iframe {
		m["URI"] = aQuoted
	}
	return m
}

var tags = map[string]*tagSpec{
	// basic
	tagEXTM3U:       {class: clsBasic, value: valNone}, // uniqueness handled specially
	"EXT-X-VERSION": {class: clsBasic, value: valInt, once: true},

	// media segment tags
	tagExtinf:          {class: clsSegment, value: valExtinf, perSegment: true},
	tagByteRange:       {class: clsSegment, value: valByteRange, perSegment: true},
	tagDiscontinuity:   {class: clsSegment, value: valNone, perSegment: true},
	tagGap:             {class: clsSegment, value: valNone, perSegment: true},
	tagProgramDateTime: {class: clsSegment, value: valDateTime, perSegment: true},
	tagBitrate:         {class: clsSegment, value: valInt, perSegment: true},
	"EXT-X-KEY": {
		class: clsSegment, value: valAttrList,
		attrs: keyAttrs("NONE", "AES-128", "SAMPLE-AES", "SAMPLE-AES-CTR"),
		// METHOD / URI handled in cross-attribute checks
	},
	"EXT-X-MAP": {
		class: clsSegment, value: valAttrList,
		attrs:    map[string]attrSpec{"URI": aQuoted, "BYTERANGE": aQByteRng},
		required: []string{"URI"},
	},
	tagPart: {
		class: clsSegment, value: valAttrList,
		attrs: map[string]attrSpec{
			"URI":         aQuoted,
			"DURATION":    aFloat,
			"INDEPENDENT": aYesNo,
			"BYTERANGE":   aQByteRng,
			"GAP":         aYesNo,
		},
		required: []string{"URI", "DURATION"},
	},
	"EXT-X-DATERANGE": {
		class: clsSegment, value: valAttrList,
		attrs: map[string]attrSpec{
			"ID":               aQuoted,
			"CLASS":            aQuoted,
			"START-DATE":       aQuoted,
			"CUE":              aQuoted,
			"END-DATE":         aQuoted,
			"DURATION":         aFloat,
			"PLANNED-DURATION": aFloat,
			"SCTE35-CMD":       aHex,
			"SCTE35-OUT":       aHex,
			"SCTE35-IN":        aHex,
			"END-ON-NEXT":      enum("YES"),
		},
		required: []string{"ID"},
	},

	// media playlist tags
	tagTargetDuration:              {class: clsMediaPlaylist, value: valInt, once: true},
	"EXT-X-MEDIA-SEQUENCE":         {class: clsMediaPlaylist, value: valInt, once: true},
	"EXT-X-DISCONTINUITY-SEQUENCE": {class: clsMediaPlaylist, value: valInt, once: true},
	"EXT-X-ENDLIST":                {class: clsMediaPlaylist, value: valNone, once: true},
	"EXT-X-PLAYLIST-TYPE":          {class: clsMediaPlaylist, value: valPlaylistType, once: true},
	"EXT-X-I-FRAMES-ONLY":          {class: clsMediaPlaylist, value: valNone, once: true},
	"EXT-X-ALLOW-CACHE":            {class: clsMediaPlaylist, value: valYesNo, once: true},
	"EXT-X-PART-INF": {
		class: clsMediaPlaylist, value: valAttrList, once: true,
		attrs:    map[string]attrSpec{"PART-TARGET": aFloat},
		required: []string{"PART-TARGET"},
	},
	"EXT-X-SERVER-CONTROL": {
		class: clsMediaPlaylist, value: valAttrList, once: true,
		attrs: map[string]attrSpec{
			"CAN-SKIP-UNTIL":      aFloat,
			"HOLD-BACK":           aFloat,
			"PART-HOLD-BACK":      aFloat,
			"CAN-SKIP-DATERANGES": aYesNo,
			"CAN-BLOCK-RELOAD":    aYesNo,
		},
	},
	"EXT-X-SKIP": {
		class: clsMediaPlaylist, value: valAttrList, once: true,
		attrs: map[string]attrSpec{
			"SKIPPED-SEGMENTS":            aInt,
			"RECENTLY-REMOVED-DATERANGES": aQuoted,
		},
		required: []string{"SKIPPED-SEGMENTS"},
	},
	"EXT-X-PRELOAD-HINT": {
		class: clsMediaPlaylist, value: valAttrList,
		attrs: map[string]attrSpec{
			"TYPE":             enum("PART", "MAP"),
			"URI":              aQuoted,
			"BYTERANGE-START":  aInt,
			"BYTERANGE-LENGTH": aInt,
		},
		required: []string{"TYPE", "URI"},
	},
	"EXT-X-RENDITION-REPORT": {
		class: clsMediaPlaylist, value: valAttrList,
		attrs: map[string]attrSpec{
			"URI":       aQuoted,
			"LAST-MSN":  aInt,
			"LAST-PART": aInt,
		},
	},

	// multivariant playlist tags
	"EXT-X-MEDIA": {
		class: clsMultivariant, value: valAttrList,
		attrs: map[string]attrSpec{
			"TYPE":                enum("AUDIO", "VIDEO", "SUBTITLES", "CLOSED-CAPTIONS"),
			"URI":                 aQuoted,
			"GROUP-ID":            aQuoted,
			"LANGUAGE":            aQuoted,
			"ASSOC-LANGUAGE":      aQuoted,
			"NAME":                aQuoted,
			"STABLE-RENDITION-ID": aQuoted,
			"INSTREAM-ID":         aQuoted,
			"CHARACTERISTICS":     aQuoted,
			"CHANNELS":            aQuoted,
			"DEFAULT":             aYesNo,
			"AUTOSELECT":          aYesNo,
			"FORCED":              aYesNo,
		},
		required: []string{"TYPE", "GROUP-ID", "NAME"},
	},
	tagStreamInf: {
		class: clsMultivariant, value: valAttrList,
		attrs:    streamInfAttrs(false),
		required: []string{"BANDWIDTH"},
	},
	"EXT-X-I-FRAME-STREAM-INF": {
		class: clsMultivariant, value: valAttrList,
		attrs:    streamInfAttrs(true),
		required: []string{"BANDWIDTH", "URI"},
	},
	"EXT-X-SESSION-DATA": {
		class: clsMultivariant, value: valAttrList,
		attrs: map[string]attrSpec{
			"DATA-ID":  aQuoted,
			"VALUE":    aQuoted,
			"URI":      aQuoted,
			"LANGUAGE": aQuoted,
		},
		required: []string{"DATA-ID"},
	},
	"EXT-X-SESSION-KEY": {
		class: clsMultivariant, value: valAttrList,
		// RFC 8216 4.3.4.5: METHOD MUST NOT be NONE
		attrs:    keyAttrs("AES-128", "SAMPLE-AES", "SAMPLE-AES-CTR"),
		required: []string{"METHOD", "URI"},
	},
	"EXT-X-CONTENT-STEERING": {
		class: clsMultivariant, value: valAttrList,
		attrs: map[string]attrSpec{
			"SERVER-URI": aQuoted,
			"PATHWAY-ID": aQuoted,
		},
		required: []string{"SERVER-URI"},
	},

	// media or multivariant playlist tags
	"EXT-X-INDEPENDENT-SEGMENTS": {class: clsEither, value: valNone, once: true},
	"EXT-X-START": {
		class: clsEither, value: valAttrList, once: true,
		attrs: map[string]attrSpec{
			"TIME-OFFSET": aSFloat,
			"PRECISE":     aYesNo,
		},
		required: []string{"TIME-OFFSET"},
	},
	tagDefine: {
		class: clsEither, value: valAttrList,
		attrs: map[string]attrSpec{
			"NAME":       aQuoted,
			"VALUE":      aQuoted,
			"IMPORT":     aQuoted,
			"QUERYPARAM": aQuoted,
		},
	},
}

// perSegmentOrder is the reporting order for pending segment tags at the end
// of the playlist.
var perSegmentOrder = []string{
	tagExtinf, tagByteRange, tagDiscontinuity, tagGap, tagProgramDateTime, tagBitrate,
}

// ---------------------------------------------------------------------------
// lexical helpers

func allIn(s, set string) bool {
	if s == "" {
		return false
	}
	for i := 0; i < len(s); i++ {
		if strings.IndexByte(set, s[i]) < 0 {
			return false
		}
	}
	return true
}

func allDigits(s string) bool { return allIn(s, "0123456789") }

func isWS(c byte) bool { return strings.IndexByte(asciiWhitespace, c) >= 0 }

// isDecimalInteger: [0-9]{1,20}, range 0..2^64-1 (RFC 8216 section 4.2).
func isDecimalInteger(s string) bool {
	if len(s) > maxDecimalIntegerLen || !allDigits(s) {
		return false
	}
	_, err := strconv.ParseUint(s, 10, 64)
	return err == nil
}

// isDecimalFloat: [0-9]+(\.[0-9]+)?
func isDecimalFloat(s string) bool {
	i := strings.IndexByte(s, '.')
	if i < 0 {
		return allDigits(s)
	}
	return allDigits(s[:i]) && allDigits(s[i+1:])
}

// isSignedDecimalFloat: -?[0-9]+(\.[0-9]+)?
func isSignedDecimalFloat(s string) bool {
	return isDecimalFloat(strings.TrimPrefix(s, "-"))
}

// isResolution: [0-9]+x[0-9]+
func isResolution(s string) bool {
	i := strings.IndexByte(s, 'x')
	return i >= 0 && allDigits(s[:i]) && allDigits(s[i+1:])
}

// isHexSequence: 0[xX][0-9A-Fa-f]+
func isHexSequence(s string) bool {
	if len(s) < 3 || s[0] != '0' || (s[1] != 'x' && s[1] != 'X') {
		return false
	}
	return allIn(s[2:], hexDigits)
}

// isByteRange: n[@o], both decimal-integers.
func isByteRange(s string) bool {
	i := strings.IndexByte(s, '@')
	if i < 0 {
		return isDecimalInteger(s)
	}
	return isDecimalInteger(s[:i]) && isDecimalInteger(s[i+1:])
}

func atoi2(s string) int { return int(s[0]-'0')*10 + int(s[1]-'0') }

func daysIn(year, month int) int {
	switch month {
	case 4, 6, 9, 11:
		return 30
	case 2:
		if year%4 == 0 && (year%100 != 0 || year%400 == 0) {
			return 29
		}
		return 28
	}
	return 31
}

// isDateTime checks an ISO 8601:2004 extended-format date-time:
// YYYY-MM-DDThh:mm:ss[(.|,)s+][Z|(+|-)hh[[:]mm]] with valid field ranges.
// RFC 8216 4.3.2.6 says the time zone and fractional seconds SHOULD be
// present, so both are optional here.
func isDateTime(s string) bool {
	if len(s) < 19 {
		return false
	}
	if !allDigits(s[0:4]) || s[4] != '-' || !allDigits(s[5:7]) || s[7] != '-' ||
		!allDigits(s[8:10]) || s[10] != 'T' || !allDigits(s[11:13]) || s[13] != ':' ||
		!allDigits(s[14:16]) || s[16] != ':' || !allDigits(s[17:19]) {
		return false
	}
	year := atoi2(s[0:2])*100 + atoi2(s[2:4])
	month, day := atoi2(s[5:7]), atoi2(s[8:10])
	hour, minute, sec := atoi2(s[11:13]), atoi2(s[14:16]), atoi2(s[17:19])
	if month < 1 || month > 12 || day < 1 || day > daysIn(year, month) {
		return false
	}
	if minute > 59 || sec > 60 {
		return false
	}
	rest := s[19:]
	fracAllZero := true
	if rest != "" && (rest[0] == '.' || rest[0] == ',') {
		n := 1
		for n < len(rest) && rest[n] >= '0' && rest[n] <= '9' {
			if rest[n] != '0' {
				fracAllZero = false
			}
			n++
		}
		if n == 1 {
			return false
		}
		rest = rest[n:]
	}
	if hour > 23 {
		// ISO 8601:2004 allows 24:00:00 for end of day
		if hour != 24 || minute != 0 || sec != 0 || !fracAllZero {
			return false
		}
	}
	switch {
	case rest == "" || rest == "Z":
		return true
	case rest[0] != '+' && rest[0] != '-':
		return false
	}
	tz := rest[1:]
	var hh, mm string
	switch len(tz) {
	case 2:
		hh, mm = tz, "00"
	case 4:
		hh, mm = tz[:2], tz[2:]
	case 5:
		if tz[2] != ':' {
			return false
		}
		hh, mm = tz[:2], tz[3:]
	default:
		return false
	}
	if !allDigits(hh) || !allDigits(mm) {
		return false
	}
	return atoi2(hh) <= 23 && atoi2(mm) <= 59
}

// isExtinfValue: <duration>,[<title>]
func isExtinfValue(s string) (bool, string) {
	i := strings.IndexByte(s, ',')
	if i < 0 {
		return false, "missing mandatory ',' after duration"
	}
	if !isDecimalFloat(s[:i]) {
		return false, fmt.Sprintf("duration %q is not a decimal-floating-point or decimal-integer", s[:i])
	}
	return true, ""
}

type attr struct {
	name   string
	value  string // without quotes
	quoted bool
}

// parseAttrList strictly parses an attribute-list. It returns the attributes
// parsed and "" on success, or a description of the first syntax error.
func parseAttrList(s string) ([]attr, string) {
	if s == "" {
		return nil, "empty attribute list"
	}
	var out []attr
	i := 0
	for {
		start := i
		for i < len(s) && strings.IndexByte(attrNameChars, s[i]) >= 0 {
			i++
		}
		if i >= len(s) {
			return out, fmt.Sprintf("attribute %q has no '='", s[start:])
		}
		if s[i] != '=' || i == start {
			c := s[i]
			switch {
			case c == ',' && i == start:
				return out, fmt.Sprintf("empty item at offset %d (leading or doubled comma)", i)
			case c == '=':
				return out, fmt.Sprintf("empty attribute name at offset %d", i)
			case isWS(c):
				return out, fmt.Sprintf("whitespace at offset %d", i)
			case c == ',':
				return out, fmt.Sprintf("attribute %q has no '='", s[start:i])
			default:
				return out, fmt.Sprintf("invalid character %q in attribute name at offset %d", c, i)
			}
		}
		name := s[start:i]
		i++ // '='
		if i >= len(s) {
			return out, fmt.Sprintf("attribute %s has an empty value", name)
		}
		if s[i] == '"' {
			j := strings.IndexByte(s[i+1:], '"')
			if j < 0 {
				return out, fmt.Sprintf("attribute %s: unterminated quoted-string", name)
			}
			val := s[i+1 : i+1+j]
			if strings.ContainsAny(val, "\r\n") {
				return out, fmt.Sprintf("attribute %s: quoted-string contains CR or LF", name)
			}
			i += j + 2
			if i < len(s) && s[i] != ',' {
				return out, fmt.Sprintf("attribute %s: unexpected character %q after closing quote", name, s[i])
			}
			out = append(out, attr{name: name, value: val, quoted: true})
		} else {
			vstart := i
			for i < len(s) && s[i] != ',' {
				if s[i] == '"' {
					return out, fmt.Sprintf("attribute %s: '\"' inside unquoted value", name)
				}
				if isWS(s[i]) {
					return out, fmt.Sprintf("attribute %s: whitespace in unquoted value at offset %d", name, i)
				}
				i++
			}
			if i == vstart {
				return out, fmt.Sprintf("attribute %s has an empty value", name)
			}
			out = append(out, attr{name: name, value: s[vstart:i]})
		}
		if i >= len(s) {
			return out, ""
		}
		i++ // ','
		if i >= len(s) {
			return out, "trailing comma"
		}
	}
}

// ---------------------------------------------------------------------------
// checker

type line struct {
	text    string
	isBlank bool
	isWS    bool // whitespace-only
	isURI   bool
	isTag   bool   // starts with #EXT
	name    string // tag name (trailing whitespace trimmed if that makes it known)
	nameWS  bool   // tag name had trailing whitespace
	hasVal  bool
	val     string
	spec    *tagSpec // nil if unknown
}

type checker struct {
	v         []Violation
	hasDefine bool
}

func (c *checker) add(rule, tag, at string, ln int, format string, args ...interface{}) {
	c.v = append(c.v, Violation{Rule: rule, Tag: tag, Attr: at, Line: ln, Detail: fmt.Sprintf(format, args...)})
}

func splitLines(b []byte) []string {
	parts := strings.Split(string(b), "\n")
	if parts[len(parts)-1] == "" {
		parts = parts[:len(parts)-1] // final line terminator (or empty input)
	}
	for i, p := range parts {
		parts[i] = strings.TrimSuffix(p, "\r")
	}
	return parts
}

func classify(text string) line {
	l := line{text: text}
	switch {
	case text == "":
		l.isBlank = true
	case strings.Trim(text, asciiWhitespace) == "":
		l.isWS = true
	case text[0] != '#':
		l.isURI = true
	case strings.HasPrefix(text, extPrefix):
		l.isTag = true
		body := text[1:]
		if i := strings.IndexByte(body, ':'); i >= 0 {
			l.name, l.val, l.hasVal = body[:i], body[i+1:], true
		} else {
			l.name = body
		}
		l.spec = tags[l.name]
		if l.spec == nil {
			if t := strings.TrimRight(l.name, asciiWhitespace); tags[t] != nil {
				l.name, l.spec, l.nameWS = t, tags[t], true
			}
		}
	}
	// anything else is a comment
	return l
}

// Check parses b strictly and returns the detected kind and all violations.
func Check(b []byte) (Kind, []Violation) {
	texts := splitLines(b)
	lines := make([]line, len(texts))
	c := &checker{}

	// pass 1: classify, detect kind
	firstMedia, firstMulti := 0, 0
	var firstMediaTag, firstMultiTag string
	for i, t := range texts {
		l := classify(t)
		lines[i] = l
		if l.spec == nil {
			continue
		}
		switch l.spec.class {
		case clsSegment, clsMediaPlaylist:
			if firstMedia == 0 {
				firstMedia, firstMediaTag = i+1, l.name
			}
		case clsMultivariant:
			if firstMulti == 0 {
				firstMulti, firstMultiTag = i+1, l.name
			}
		}
		if l.name == tagDefine {
			c.hasDefine = true
		}
	}
	kind := KindUnknown
	mixed := false
	switch {
	case firstMedia != 0 && firstMulti != 0:
		mixed = true
		if firstMedia < firstMulti {
			kind = KindMedia
			c.add(RuleMixedKind, "", "", firstMulti,
				"multivariant playlist tag %s in a playlist that has media tag %s on line %d",
				firstMultiTag, firstMediaTag, firstMedia)
		} else {
			kind = KindMultivariant
			c.add(RuleMixedKind, "", "", firstMedia,
				"media tag %s in a playlist that has multivariant playlist tag %s on line %d",
				firstMediaTag, firstMultiTag, firstMulti)
		}
	case firstMedia != 0:
		kind = KindMedia
	case firstMulti != 0:
		kind = KindMultivariant
	}

	// header
	headerOK := len(texts) > 0 && texts[0] == extm3uLine
	if !headerOK {
		switch {
		case len(texts) == 0:
			c.add(RuleHeader, tagEXTM3U, "", 1, "empty playlist; first line must be exactly #EXTM3U")
		case strings.HasPrefix(texts[0], byteOrderMark):
			c.add(RuleHeader, tagEXTM3U, "", 1, "playlist starts with a byte order mark; first line must be exactly #EXTM3U")
		default:
			c.add(RuleHeader, tagEXTM3U, "", 1, "first line is %q; it must be exactly #EXTM3U", texts[0])
		}
	}

	// pass 2: per-line and structural checks
	seen := map[string]int{}    // once-per-playlist tags -> first line
	pending := map[string]int{} // per-segment tags since the last URI line -> line
	partSinceURI := false
	prevStreamInf := 0 // line number of EXT-X-STREAM-INF iff it is the immediately preceding line
	hasTargetDuration := false

	for i := range lines {
		l := &lines[i]
		ln := i + 1
		if ln == 1 && !headerOK && strings.Contains(l.text, extm3uLine) {
			continue // malformed header line (BOM, whitespace, value...), already reported
		}

		// EXT-X-STREAM-INF adjacency
		if prevStreamInf != 0 && !l.isURI {
			c.add(RuleStreamInfWithoutURI, tagStreamInf, "", prevStreamInf,
				"EXT-X-STREAM-INF is not immediately followed by a URI line (line %d is %q)", ln, l.text)
		}
		streamInfBefore := prevStreamInf != 0
		prevStreamInf = 0

		switch {
		case l.isBlank:
			continue
		case l.isWS:
			c.add(RuleWhitespaceLine, "", "", ln, "line consists of whitespace only")
			continue
		case l.isURI:
			if strings.ContainsAny(l.text, asciiWhitespace) || hasControl(l.text) {
				c.add(RuleURISyntax, "", "", ln, "URI line %q contains whitespace or control characters", l.text)
			}
			_, extinfBefore := pending[tagExtinf]
			switch {
			case mixed && (extinfBefore || streamInfBefore):
				// acceptable under one of the two kinds; mixed-kind already reported
			case kind == KindMultivariant:
				if !streamInfBefore {
					c.add(RuleURIWithoutStreamInf, "", "", ln,
						"URI line %q is not immediately preceded by EXT-X-STREAM-INF", l.text)
				}
			default: // media, or unknown kind (which has neither EXTINF nor EXT-X-STREAM-INF)
				if !extinfBefore {
					c.add(RuleURIWithoutExtinf, "", "", ln,
						"URI line %q is not preceded by EXTINF", l.text)
				}
			}
			pending = map[string]int{}
			partSinceURI = false
			continue
		case !l.isTag:
			continue // comment
		}

		// tag line
		if l.spec == nil {
			c.add(RuleUnknownTag, l.name, "", ln, "unknown tag #%s", l.name)
			continue
		}
		name, spec := l.name, l.spec

		// uniqueness
		switch {
		case name == tagEXTM3U:
			if ln != 1 {
				if headerOK {
					c.add(RuleDuplicateTag, name, "", ln, "EXTM3U may appear only once, on line 1")
				} else {
					c.add(RuleHeader, name, "", ln, "EXTM3U must be on line 1")
				}
			}
		case spec.once:
			if first, ok := seen[name]; ok {
				c.add(RuleDuplicateTag, name, "", ln, "%s already appeared on line %d", name, first)
			} else {
				seen[name] = ln
			}
		case spec.perSegment:
			if first, ok := pending[name]; ok {
				c.add(RuleDuplicateTag, name, "", ln,
					"%s already appeared on line %d for the same media segment", name, first)
			} else {
				pending[name] = ln
			}
		}
		switch name {
		case tagStreamInf:
			prevStreamInf = ln
		case tagPart:
			partSinceURI = true
		case tagTargetDuration:
			hasTargetDuration = true
		}

		// value
		if l.nameWS {
			c.add(RuleTagValue, name, "", ln, "whitespace after tag name in %q", l.text)
			continue
		}
		c.checkValue(l, ln)
	}

	// end of playlist
	if prevStreamInf != 0 {
		c.add(RuleStreamInfWithoutURI, tagStreamInf, "", prevStreamInf,
			"EXT-X-STREAM-INF is the last line; it must be immediately followed by a URI line")
	}
	for _, name := range perSegmentOrder {
		ln, ok := pending[name]
		if !ok {
			continue
		}
		// In a Low-Latency playlist the tags that also apply to Partial
		// Segments legitimately precede the EXT-X-PART lines of the segment
		// still in progress, which has no URI line yet.
		if partSinceURI && name != tagExtinf && name != tagByteRange {
			continue
		}
		c.add(RuleSegmentTagWithoutURI, name, "", ln, "%s is not followed by a URI line", name)
	}
	if kind == KindMedia && !hasTargetDuration {
		c.add(RuleRequiredTag, tagTargetDuration, "", 1, "media playlist without EXT-X-TARGETDURATION")
	}

	sort.SliceStable(c.v, func(i, j int) bool { return c.v[i].Line < c.v[j].Line })
	return kind, c.v
}

func hasControl(s string) bool {
	for i := 0; i < len(s); i++ {
		if s[i] < 0x20 || s[i] == 0x7f {
			return true
		}
	}
	return false
}

func (c *checker) checkValue(l *line, ln int) {
	name, spec := l.name, l.spec
	if spec.value == valNone {
		if l.hasVal {
			c.add(RuleTagValue, name, "", ln, "%s takes no value, line is %q", name, l.text)
		}
		return
	}
	if !l.hasVal {
		c.add(RuleTagValue, name, "", ln, "%s requires ':' and a value", name)
		return
	}
	val := l.val
	switch spec.value {
	case valInt:
		if !isDecimalInteger(val) {
			c.add(RuleTagValue, name, "", ln, "value %q is not a decimal-integer", val)
		}
	case valPlaylistType:
		if val != "EVENT" && val != "VOD" {
			c.add(RuleTagValue, name, "", ln, "value %q is not EVENT or VOD", val)
		}
	case valYesNo:
		if val != "YES" && val != "NO" {
			c.add(RuleTagValue, name, "", ln, "value %q is not YES or NO", val)
		}
	case valByteRange:
		if !isByteRange(val) {
			c.add(RuleTagValue, name, "", ln, "value %q is not <n>[@<o>]", val)
		}
	case valDateTime:
		if !isDateTime(val) {
			c.add(RuleTagValue, name, "", ln, "value %q is not a valid ISO 8601 date-time", val)
		}
	case valExtinf:
		if ok, why := isExtinfValue(val); !ok {
			c.add(RuleTagValue, name, "", ln, "value %q: %s", val, why)
		}
	case valAttrList:
		c.checkAttrList(name, spec, val, ln)
	}
}

func (c *checker) checkAttrList(tag string, spec *tagSpec, val string, ln int) {
	attrs, bad := parseAttrList(val)
	if bad != "" {
		c.add(RuleAttrListSyntax, tag, "", ln, "%s (attribute list %q)", bad, val)
		return
	}
	byName := map[string]attr{}
	for _, a := range attrs {
		if _, dup := byName[a.name]; dup {
			c.add(RuleDuplicateAttr, tag, a.name, ln, "attribute %s appears more than once", a.name)
			continue
		}
		byName[a.name] = a
		if as, known := spec.attrs[a.name]; known {
			c.checkAttrType(tag, as, a, ln)
		}
	}
	for _, r := range spec.required {
		if _, ok := byName[r]; !ok {
			c.add(RuleAttrRequired, tag, r, ln, "required attribute %s is missing", r)
		}
	}
	has := func(n string) bool { _, ok := byName[n]; return ok }

	switch tag {
	case "EXT-X-KEY":
		m, ok := byName["METHOD"]
		switch {
		case !ok:
			c.add(RuleAttrRequired, tag, "METHOD", ln, "required attribute METHOD is missing")
		case !m.quoted && m.value == "NONE":
			for _, a := range attrs {
				if a.name != "METHOD" {
					c.add(RuleAttrForbidden, tag, a.name, ln, "METHOD=NONE: other attributes must not be present")
				}
			}
		default:
			if !has("URI") {
				c.add(RuleAttrRequired, tag, "URI", ln, "URI is required unless METHOD is NONE")
			}
		}
	case "EXT-X-MEDIA":
		t, ok := byName["TYPE"]
		if !ok || t.quoted {
			break
		}
		switch t.value {
		case "CLOSED-CAPTIONS":
			if !has("INSTREAM-ID") {
				c.add(RuleAttrRequired, tag, "INSTREAM-ID", ln, "INSTREAM-ID is required when TYPE is CLOSED-CAPTIONS")
			}
			if has("URI") {
				c.add(RuleAttrForbidden, tag, "URI", ln, "URI must not be present when TYPE is CLOSED-CAPTIONS")
			}
		case "AUDIO", "VIDEO", "SUBTITLES":
			if has("INSTREAM-ID") {
				c.add(RuleAttrForbidden, tag, "INSTREAM-ID", ln, "INSTREAM-ID must not be present when TYPE is %s", t.value)
			}
			if t.value == "SUBTITLES" && !has("URI") {
				c.add(RuleAttrRequired, tag, "URI", ln, "URI is required when TYPE is SUBTITLES")
			}
		}
	case "EXT-X-SESSION-DATA":
		switch {
		case has("VALUE") && has("URI"):
			c.add(RuleAttrForbidden, tag, "URI", ln, "VALUE and URI must not both be present")
		case !has("VALUE") && !has("URI"):
			c.add(RuleAttrRequired, tag, "VALUE", ln, "one of VALUE or URI is required")
		}
	}
}

func (c *checker) checkAttrType(tag string, as attrSpec, a attr, ln int) {
	bad := func(want string) {
		shown := a.value
		if a.quoted {
			shown = `"` + a.value + `"`
		}
		c.add(RuleAttrType, tag, a.name, ln, "%s=%s is not a %s", a.name, shown, want)
	}
	unquoted := func(pred func(string) bool, want string) {
		if a.quoted || !pred(a.value) {
			bad(want)
		}
	}
	switch as.typ {
	case atInt:
		unquoted(isDecimalInteger, "decimal-integer")
	case atFloat:
		unquoted(isDecimalFloat, "decimal-floating-point")
	case atSignedFloat:
		unquoted(isSignedDecimalFloat, "signed-decimal-floating-point")
	case atResolution:
		unquoted(isResolution, "decimal-resolution")
	case atHex:
		// hexadecimal-sequences are subject to variable substitution
		// (rfc8216bis 4.3): tolerate a variable reference if the playlist
		// uses EXT-X-DEFINE.
		if !a.quoted && c.hasDefine && strings.Contains(a.value, variableReferenceOpen) {
			return
		}
		unquoted(isHexSequence, "hexadecimal-sequence")
	case atQuoted:
		if !a.quoted {
			bad("quoted-string")
		}
	case atEnum:
		if a.quoted {
			bad("enumerated-string")
			return
		}
		if len(as.enum) == 0 {
			return
		}
		for _, e := range as.enum {
			if a.value == e {
				return
			}
		}
		bad("enumerated-string from {" + strings.Join(as.enum, ", ") + "}")
	case atQuotedOrNone:
		if !a.quoted && a.value != "NONE" {
			bad("quoted-string or NONE")
		}
	case atQuotedByteRange:
		if !a.quoted {
			rule := RuleAttrType
			switch tag {
			case "EXT-X-MAP":
				rule = RuleAttrTypeMapByteRangeUnq
			case tagPart:
				rule = RuleAttrTypePartByteRangeUnq
			}
			c.add(rule, tag, a.name, ln, "%s=%s must be a quoted-string", a.name, a.value)
		}
		if !isByteRange(a.value) {
			bad("quoted-string containing <n>[@<o>]")
		}
	}
}
