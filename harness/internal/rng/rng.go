// Package rng is the single PRNG (splitmix64) every harness derives its choices from.
package rng

// R is a splitmix64 state.
type R struct{ s uint64 }

// New returns a generator for (seed, stream).
func New(seed uint64, stream uint64) *R {
	r := &R{s: seed*0x9E3779B97F4A7C15 + stream*0xD1B54A32D192ED03 + 0x1234567}
	r.U64()
	return r
}

// Fork returns an independent generator derived from r's current state and a tag, without advancing r: a
// dimension added to a generator later draws from a fork, so that the inputs a seed produced before stay the same.
func (r *R) Fork(tag uint64) *R { return New(r.s, tag) }

// U64 returns the next 64 random bits.
func (r *R) U64() uint64 {
	r.s += 0x9E3779B97F4A7C15
	z := r.s
	z = (z ^ (z >> 30)) * 0xBF58476D1CE4E5B9
	z = (z ^ (z >> 27)) * 0x94D049BB133111EB
	return z ^ (z >> 31)
}

// Intn returns a value in [0,n).
func (r *R) Intn(n int) int {
	if n <= 0 {
		return 0
	}
	return int(r.U64() % uint64(n))
}

// Range returns a value in [lo,hi] (inclusive).
func (r *R) Range(lo, hi int64) int64 {
	if hi <= lo {
		return lo
	}
	return lo + int64(r.U64()%uint64(hi-lo+1))
}

// Bool returns true with probability num/den.
func (r *R) Bool(num, den int) bool { return r.Intn(den) < num }

// Pick returns one of the weights' indices, proportionally.
func (r *R) Pick(weights ...int) int {
	t := 0
	for _, w := range weights {
		t += w
	}
	x := r.Intn(t)
	for i, w := range weights {
		if x < w {
			return i
		}
		x -= w
	}
	return len(weights) - 1
}

// Bytes returns n random bytes.
func (r *R) Bytes(n int) []byte {
	b := make([]byte, n)
	for i := range b {
		b[i] = byte(r.U64())
	}
	return b
}
