// Package coqfmt prints Go values as Coq terms (Z scope assumed open).
package coqfmt

import (
	"strconv"
	"strings"
)

// Z prints an integer as a Z literal.
func Z(v int64) string {
	if v < 0 {
		return "(" + strconv.FormatInt(v, 10) + ")"
	}
	return strconv.FormatInt(v, 10)
}

// Nat prints a nat literal.
func Nat(v int) string { return strconv.Itoa(v) + "%nat" }

// Bool prints a bool.
func Bool(b bool) string {
	if b {
		return "true"
	}
	return "false"
}

// Bytes prints a byte slice as list Z.
func Bytes(b []byte) string {
	var sb strings.Builder
	sb.WriteByte('[')
	for i, x := range b {
		if i > 0 {
			sb.WriteByte(';')
		}
		sb.WriteString(strconv.Itoa(int(x)))
	}
	sb.WriteByte(']')
	return sb.String()
}

// List joins already printed items.
func List(items []string) string { return "[" + strings.Join(items, "; ") + "]" }

// Str prints a byte string as a Coq string term: printable ASCII and LF as literals,
// everything else through (bs [..]) which the tie libraries define.
func Str(s string) string {
	if s == "" {
		return "\"\"%string"
	}
	var parts []string
	var cur strings.Builder
	flush := func() {
		if cur.Len() > 0 {
			parts = append(parts, "\""+cur.String()+"\"%string")
			cur.Reset()
		}
	}
	for i := 0; i < len(s); i++ {
		c := s[i]
		switch {
		case c == '"':
			cur.WriteString("\"\"")
		case c == '\n' || (c >= 0x20 && c <= 0x7e):
			cur.WriteByte(c)
		default:
			flush()
			parts = append(parts, "(bs ["+strconv.Itoa(int(c))+"%nat])")
		}
	}
	flush()
	if len(parts) == 1 {
		return parts[0]
	}
	return "(" + strings.Join(parts, " ++ ") + ")%string"
}
