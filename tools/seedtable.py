#!/usr/bin/env python3
"""Regenerates /verif/seeded/README.md from the meta.json files written by tools/seedconfirm.py."""
import json, glob, os
V = '/verif'
rows = []
for f in sorted(glob.glob(os.path.join(V, 'seeded', '*', 'meta.json'))):
    m = json.load(open(f))
    c = m.get('check', {})
    legs = []
    s = (c.get('summary') or [''])[0]
    if 'proof=FAILED' in s:
        legs.append('proof/translator')
    import re
    mm = re.search(r'(\d+) model mismatches, (\d+) oracle failures', s)
    if mm:
        if int(mm.group(1)):
            legs.append('tie (model vs code)')
        if int(mm.group(2)):
            legs.append('search oracle')
    conf = m.get('applies') and m.get('builds') and m.get('existing_tests_pass') and \
        m.get('demo_with_patch') == 'fails' and m.get('demo_without_patch') == 'passes'
    rows.append((os.path.basename(os.path.dirname(f)), m['property'], (m.get('title') or '').replace('|', '/'),
                 (m.get('needs') or '').replace('|', '/').replace('\n', ' '),
                 'yes' if conf else 'NO', 'caught' if m.get('caught') else 'MISSED', ', '.join(legs),
                 m.get('strengthened', '')))
out = ["# Seeded breaking changes",
       "",
       "Each directory holds one change to bluenviron/gohlslib written by a fresh sub-agent that was given only the text",
       "of one property and its own scratch worktree of /repo (nothing from /verif): `patch.diff`, the agent's demonstration",
       "test, `agent_meta.json` (the agent's own description) and `meta.json` (what `tools/seedconfirm.py` confirmed in a",
       "scratch copy: the patch applies, the library builds with and without the `verif` tag, the existing test suite passes",
       "with the patch, the demonstration fails with the patch and passes without it; then the result of running this",
       "property's check against the patched copy with `VERIF_REPO=<copy> bin/check <id> --tier quick`, its VIOLATION lines,",
       "`check.log` and up to two replay files). None of these changes is ever committed to /repo.",
       "",
       "Re-run one: `tools/seedtest.sh <Cxx> /verif/seeded/<dir>/patch.diff [quick|thorough]`; re-confirm and re-record:",
       "`tools/seedconfirm.py <Cxx> <dir with patch.diff, demo, meta.json>`; regenerate this file: `tools/seedtable.py`.",
       "",
       "| dir | property | change | needs, to manifest | confirmed | check | legs that fired | strengthened for it |",
       "|---|---|---|---|---|---|---|---|"]
for r in rows:
    out.append('| ' + ' | '.join(r) + ' |')
n = len(rows)
c = sum(1 for r in rows if r[5] == 'caught')
out += ["", f"{c} of {n} confirmed changes are caught by the quick tier of the property they were written against.", ""]
open(os.path.join(V, 'seeded', 'README.md'), 'w').write('\n'.join(out))
print(f"{c}/{n} caught")
