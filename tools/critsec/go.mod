module critsectool

go 1.22
