// Command critsec regenerates coq/Generated/MuxCritSec.v from the Go source: the lock skeleton
// of the muxer's rotation code (what the writer goroutine runs: the methods of
// muxerSegmenterParent implemented by *Muxer, and everything they call) and of the playlist
// handlers (muxerStream.handleMediaPlaylist, Muxer.handleMultivariantPlaylist and what they
// call), in the language of coq/Model/MuxAtomic.v.  It fails (non-zero exit) on constructs it
// does not understand.
//
// usage (cwd must be the repository so that imports resolve):
//
//	critsec -repo . -coq OUT.v -report OUT.json [-mutants OUT_MUT.v]
package main

import (
	"encoding/json"
	"flag"
	"fmt"
	"go/ast"
	"go/token"
	"go/types"
	"os"
	"path/filepath"
	"sort"
	"strconv"
	"strings"
)

// ---------------------------------------------------------------- IR

type Node struct {
	Kind string  // atom | break | return | call | iferr | ifnl | branch | for | loop | fn
	Text string  // atom: Coq term; call, fn: name
	A, B []*Node // bodies
}

func atom(text string) *Node { return &Node{Kind: "atom", Text: text} }

type fnInfo struct {
	name    string // Type.method or function name
	decl    *ast.FuncDecl
	obj     *types.Func
	recv    *types.Var
	recvTyp *types.Named
	// prepass
	mutKind string // "", "KSeg", "KParts": a per-stream rotation method
	// translation results
	strict   []*Node
	flat     []*Node
	flatDone bool
	inFlat   bool
	strictSkipped []skippedLit // func literals not invoked where they are written
	flatSkipped   []skippedLit
}

type skippedLit struct {
	Line    int `json:"line"`
	LockOps int `json:"lock_ops"`
}

type tool struct {
	l    *loader
	pkg  *Pkg
	fns  map[*types.Func]*fnInfo
	list []*fnInfo

	muxer, stream, segFMP4, server *types.Named
	fMuxMutex, fMuxCond            *types.Var
	fStrMutex, fStrCond            *types.Var
	fLeading, fStreams             *types.Var
	fIsLeading, fGenerate          *types.Var
	fParts                         *types.Var
	observed                       map[*types.Var]string // observed muxerStream fields -> kind they belong to
	errType                        types.Type

	notes []string
}

func (t *tool) pos(p token.Pos) string {
	f, ln := t.l.relFile(p)
	return fmt.Sprintf("%s:%d", f, ln)
}

func (t *tool) failf(p token.Pos, format string, a ...interface{}) {
	fatalf("%s: %s", t.pos(p), fmt.Sprintf(format, a...))
}

func namedOf(tp types.Type) *types.Named {
	for {
		switch x := tp.(type) {
		case *types.Pointer:
			tp = x.Elem()
		case *types.Named:
			return x
		default:
			return nil
		}
	}
}

func (t *tool) lookupNamed(name string) *types.Named {
	o := t.pkg.Types.Scope().Lookup(name)
	if o == nil {
		fatalf("type %s not found", name)
	}
	n, ok := o.Type().(*types.Named)
	if !ok {
		fatalf("%s is not a named type", name)
	}
	return n
}

func fieldOf(n *types.Named, name string) *types.Var {
	st, ok := n.Underlying().(*types.Struct)
	if !ok {
		fatalf("%s is not a struct", n.Obj().Name())
	}
	for i := 0; i < st.NumFields(); i++ {
		if st.Field(i).Name() == name {
			return st.Field(i)
		}
	}
	fatalf("field %s.%s not found", n.Obj().Name(), name)
	return nil
}

func (t *tool) index() {
	t.fns = map[*types.Func]*fnInfo{}
	for _, f := range t.pkg.Files {
		for _, d := range f.Decls {
			fd, ok := d.(*ast.FuncDecl)
			if !ok || fd.Body == nil {
				continue
			}
			obj := t.pkg.Info.Defs[fd.Name].(*types.Func)
			fi := &fnInfo{decl: fd, obj: obj, name: fd.Name.Name}
			sig := obj.Type().(*types.Signature)
			if r := sig.Recv(); r != nil {
				fi.recv = r
				fi.recvTyp = namedOf(r.Type())
				if fi.recvTyp == nil {
					t.failf(fd.Pos(), "receiver type not understood")
				}
				fi.name = fi.recvTyp.Obj().Name() + "." + fd.Name.Name
			}
			t.fns[obj] = fi
			t.list = append(t.list, fi)
		}
	}
	sort.Slice(t.list, func(i, j int) bool { return t.list[i].name < t.list[j].name })
}

// field selected by a selector expression, or nil
func (t *tool) selField(e ast.Expr) *types.Var {
	se, ok := ast.Unparen(e).(*ast.SelectorExpr)
	if !ok {
		return nil
	}
	s := t.pkg.Info.Selections[se]
	if s == nil || s.Kind() != types.FieldVal {
		return nil
	}
	v, _ := s.Obj().(*types.Var)
	return v
}

func (t *tool) isOurMutex(e ast.Expr) bool {
	f := t.selField(e)
	return f != nil && (f == t.fMuxMutex || f == t.fStrMutex)
}

func (t *tool) isOurCond(e ast.Expr) bool {
	f := t.selField(e)
	return f != nil && (f == t.fMuxCond || f == t.fStrCond)
}

// ---------------------------------------------------------------- aliasing of the mutex

// muxerStream.mutex must be &Muxer.mutex and muxerStream.cond must be Muxer.cond = sync.NewCond(&Muxer.mutex)
// in every place where they are set.
func (t *tool) checkAliasing() {
	nLit := 0
	nCond := 0
	for _, f := range t.pkg.Files {
		ast.Inspect(f, func(n ast.Node) bool {
			switch x := n.(type) {
			case *ast.CompositeLit:
				tv, ok := t.pkg.Info.Types[x]
				if !ok || namedOf(tv.Type) != t.stream {
					return true
				}
				nLit++
				okM, okC := false, false
				for _, el := range x.Elts {
					kv, ok := el.(*ast.KeyValueExpr)
					if !ok {
						t.failf(el.Pos(), "muxerStream literal without field names")
					}
					k := kv.Key.(*ast.Ident).Name
					switch k {
					case "mutex":
						u, ok := kv.Value.(*ast.UnaryExpr)
						if !ok || u.Op != token.AND || t.selField(u.X) != t.fMuxMutex {
							t.failf(kv.Pos(), "muxerStream.mutex is not &Muxer.mutex")
						}
						okM = true
					case "cond":
						if t.selField(kv.Value) != t.fMuxCond {
							t.failf(kv.Pos(), "muxerStream.cond is not Muxer.cond")
						}
						okC = true
					}
				}
				if !okM || !okC {
					t.failf(x.Pos(), "muxerStream literal does not set mutex and cond")
				}
			case *ast.AssignStmt:
				for i, lhs := range x.Lhs {
					f := t.selField(lhs)
					if f == nil {
						continue
					}
					switch f {
					case t.fStrMutex, t.fStrCond, t.fMuxMutex:
						t.failf(lhs.Pos(), "assignment to %s outside a literal", f.Name())
					case t.fMuxCond:
						if len(x.Rhs) != len(x.Lhs) {
							t.failf(lhs.Pos(), "assignment to Muxer.cond not understood")
						}
						c, ok := x.Rhs[i].(*ast.CallExpr)
						if !ok || len(c.Args) != 1 {
							t.failf(lhs.Pos(), "Muxer.cond is not sync.NewCond(&m.mutex)")
						}
						fn, _ := c.Fun.(*ast.SelectorExpr)
						u, ok2 := c.Args[0].(*ast.UnaryExpr)
						if fn == nil || fn.Sel.Name != "NewCond" || !ok2 || u.Op != token.AND || t.selField(u.X) != t.fMuxMutex {
							t.failf(lhs.Pos(), "Muxer.cond is not sync.NewCond(&m.mutex)")
						}
						nCond++
					}
				}
			case *ast.UnaryExpr:
				if x.Op == token.AND && t.selField(x.X) == t.fStrMutex {
					t.failf(x.Pos(), "address of muxerStream.mutex taken")
				}
			}
			return true
		})
	}
	if nLit == 0 || nCond != 1 {
		fatalf("aliasing check: %d muxerStream literals, %d assignments of Muxer.cond", nLit, nCond)
	}
	t.notes = append(t.notes, fmt.Sprintf("aliasing: %d muxerStream literals set mutex=&Muxer.mutex, cond=Muxer.cond; Muxer.cond = sync.NewCond(&Muxer.mutex) once", nLit))
}

// the playlist generators must take MEDIA-SEQUENCE, TARGETDURATION and the segment list from the observed fields
func (t *tool) checkGenerators() []*fnInfo {
	var gens []*fnInfo
	for _, fi := range t.list {
		if fi.recvTyp != t.stream || !strings.HasPrefix(fi.decl.Name.Name, "generateMediaPlaylist") {
			continue
		}
		gens = append(gens, fi)
		okSeq, okTD, okRange := false, false, false
		ast.Inspect(fi.decl.Body, func(n ast.Node) bool {
			switch x := n.(type) {
			case *ast.KeyValueExpr:
				if id, ok := x.Key.(*ast.Ident); ok {
					f := t.selField(x.Value)
					if id.Name == "MediaSequence" {
						if f == nil || f.Name() != "segmentDeleteCount" {
							t.failf(x.Pos(), "MediaSequence is not taken from segmentDeleteCount")
						}
						okSeq = true
					}
					if id.Name == "TargetDuration" {
						if f == nil || f.Name() != "targetDuration" {
							t.failf(x.Pos(), "TargetDuration is not taken from targetDuration")
						}
						okTD = true
					}
				}
			case *ast.RangeStmt:
				if f := t.selField(x.X); f != nil && f.Name() == "segments" {
					okRange = true
				}
			}
			return true
		})
		if !okSeq || !okTD || !okRange {
			t.failf(fi.decl.Pos(), "%s: MediaSequence/TargetDuration/range over segments not found", fi.name)
		}
	}
	if len(gens) == 0 {
		fatalf("no muxerStream.generateMediaPlaylist* function")
	}
	// the generate field is only ever one of them
	for _, f := range t.pkg.Files {
		ast.Inspect(f, func(n ast.Node) bool {
			as, ok := n.(*ast.AssignStmt)
			if !ok {
				return true
			}
			for i, lhs := range as.Lhs {
				if t.selField(lhs) != t.fGenerate {
					continue
				}
				se, ok := as.Rhs[i].(*ast.SelectorExpr)
				found := false
				if ok {
					if s := t.pkg.Info.Selections[se]; s != nil && s.Kind() == types.MethodVal {
						for _, g := range gens {
							if g.obj == s.Obj() {
								found = true
							}
						}
					}
				}
				if !found {
					t.failf(lhs.Pos(), "muxerStream.generateMediaPlaylist set to something that is not a generateMediaPlaylist* method")
				}
			}
			return true
		})
	}
	return gens
}

// ---------------------------------------------------------------- prepass: per-stream rotation methods

func (t *tool) findMutators() {
	for _, fi := range t.list {
		if fi.recvTyp != t.stream {
			continue
		}
		kind := ""
		t.walkNoLits(fi.decl.Body, func(n ast.Node) {
			var lhs []ast.Expr
			switch x := n.(type) {
			case *ast.AssignStmt:
				lhs = x.Lhs
			case *ast.IncDecStmt:
				lhs = []ast.Expr{x.X}
			}
			for _, e := range lhs {
				f := t.selField(e)
				if f == nil {
					continue
				}
				if k, ok := t.observed[f]; ok {
					if k == "KSeg" || kind == "" {
						kind = k
					}
				}
			}
		})
		fi.mutKind = kind
	}
}

// walk a body without entering func literals that are not called on the spot
func (t *tool) walkNoLits(body ast.Node, f func(ast.Node)) {
	invoked := map[*ast.FuncLit]bool{}
	ast.Inspect(body, func(n ast.Node) bool {
		if c, ok := n.(*ast.CallExpr); ok {
			if fl, ok := ast.Unparen(c.Fun).(*ast.FuncLit); ok {
				invoked[fl] = true
			}
		}
		if fl, ok := n.(*ast.FuncLit); ok && !invoked[fl] {
			return false
		}
		if n != nil {
			f(n)
		}
		return true
	})
}

// ---------------------------------------------------------------- translation

type fctx struct {
	t         *tool
	fi        *fnInfo
	strict    bool
	rangeVars map[types.Object]bool
	breakable []string // innermost last: "loop" | "switch"
	skipped   *[]skippedLit
}

func (c *fctx) whoOf(e ast.Expr) string {
	t := c.t
	e = ast.Unparen(e)
	switch x := e.(type) {
	case *ast.Ident:
		obj := t.pkg.Info.Uses[x]
		if obj != nil && c.fi.recv != nil && obj == types.Object(c.fi.recv) && c.fi.recvTyp == t.stream {
			return "WSelf"
		}
		if obj != nil && c.rangeVars[obj] {
			return "WCur"
		}
	case *ast.SelectorExpr:
		if t.selField(x) == t.fLeading {
			return "WLeading"
		}
	case *ast.IndexExpr:
		if t.selField(x.X) == t.fStreams {
			if bl, ok := x.Index.(*ast.BasicLit); ok && bl.Value == "0" {
				return "WFirst"
			}
		}
	}
	if c.strict {
		t.failf(e.Pos(), "cannot tell which stream this expression denotes")
	}
	return "WSelf"
}

func q(s string) string { return `"` + strings.ReplaceAll(s, `"`, `'`) + `"` }

func (c *fctx) returnsError(call *ast.CallExpr) bool {
	tv, ok := c.t.pkg.Info.Types[call]
	if !ok {
		return false
	}
	switch x := tv.Type.(type) {
	case *types.Tuple:
		return x.Len() > 0 && types.Identical(x.At(x.Len()-1).Type(), c.t.errType)
	default:
		return types.Identical(tv.Type, c.t.errType)
	}
}

func (c *fctx) exprs(es []ast.Expr) []*Node {
	var out []*Node
	for _, e := range es {
		out = append(out, c.expr(e)...)
	}
	return out
}

// events of evaluating e (left to right, arguments before the call)
func (c *fctx) expr(e ast.Expr) []*Node {
	t := c.t
	switch x := e.(type) {
	case nil, *ast.Ident, *ast.BasicLit:
		return nil
	case *ast.ParenExpr:
		return c.expr(x.X)
	case *ast.FuncLit:
		// not called here: its body runs later, in another context
		n := 0
		ast.Inspect(x.Body, func(m ast.Node) bool {
			if ce, ok := m.(*ast.CallExpr); ok {
				if se, ok := ce.Fun.(*ast.SelectorExpr); ok && t.isOurMutex(se.X) {
					n++
				}
			}
			return true
		})
		_, ln := t.l.relFile(x.Pos())
		*c.skipped = append(*c.skipped, skippedLit{Line: ln, LockOps: n})
		return nil
	case *ast.SelectorExpr:
		out := c.expr(x.X)
		if f := t.selField(x); f != nil {
			if _, ok := t.observed[f]; ok {
				who := "WSelf"
				if f != t.fParts {
					who = c.whoOf(x.X)
				}
				out = append(out, atom(fmt.Sprintf("ARead %s %s", q(f.Name()), who)))
			}
		}
		return out
	case *ast.CallExpr:
		return c.call(x)
	case *ast.BinaryExpr:
		return append(c.expr(x.X), c.expr(x.Y)...)
	case *ast.UnaryExpr:
		if x.Op == token.ARROW {
			t.failf(x.Pos(), "channel receive")
		}
		return c.expr(x.X)
	case *ast.StarExpr:
		return c.expr(x.X)
	case *ast.IndexExpr:
		return append(c.expr(x.X), c.expr(x.Index)...)
	case *ast.SliceExpr:
		out := c.expr(x.X)
		out = append(out, c.expr(x.Low)...)
		out = append(out, c.expr(x.High)...)
		return append(out, c.expr(x.Max)...)
	case *ast.TypeAssertExpr:
		return c.expr(x.X)
	case *ast.CompositeLit:
		var out []*Node
		for _, el := range x.Elts {
			if kv, ok := el.(*ast.KeyValueExpr); ok {
				out = append(out, c.expr(kv.Value)...)
			} else {
				out = append(out, c.expr(el)...)
			}
		}
		return out
	case *ast.KeyValueExpr:
		return c.expr(x.Value)
	case *ast.ArrayType, *ast.MapType, *ast.FuncType, *ast.InterfaceType, *ast.StructType, *ast.ChanType:
		return nil
	}
	t.failf(e.Pos(), "expression %T not understood", e)
	return nil
}

func (c *fctx) syncOp(call *ast.CallExpr, se *ast.SelectorExpr, fn *types.Func, deferred bool) []*Node {
	t := c.t
	recv := namedOf(fn.Type().(*types.Signature).Recv().Type())
	rn := ""
	if recv != nil {
		rn = recv.Obj().Name()
	}
	name := fn.Name()
	desc := "sync." + rn + "." + name
	if f := t.selField(se.X); f != nil {
		owner := "?"
		if f == t.fMuxMutex || f == t.fMuxCond {
			owner = "Muxer"
		} else if f == t.fStrMutex || f == t.fStrCond {
			owner = "muxerStream"
		} else if sel := t.pkg.Info.Selections[ast.Unparen(se.X).(*ast.SelectorExpr)]; sel != nil {
			if n := namedOf(sel.Recv()); n != nil {
				owner = n.Obj().Name()
			}
		}
		desc = owner + "." + f.Name() + "." + name
	}
	switch {
	case t.isOurMutex(se.X):
		switch name {
		case "Lock":
			if deferred {
				t.failf(call.Pos(), "deferred Lock")
			}
			return []*Node{atom("ALock")}
		case "Unlock":
			if deferred {
				return []*Node{atom("ADeferUnlock")}
			}
			return []*Node{atom("AUnlock")}
		default:
			t.failf(call.Pos(), "%s on the muxer mutex is not modelled", name)
		}
	case t.isOurCond(se.X):
		if deferred {
			t.failf(call.Pos(), "deferred operation on the condition variable")
		}
		switch name {
		case "Wait":
			return []*Node{atom("AWait")}
		case "Broadcast", "Signal":
			return []*Node{atom("ANote " + q(desc))}
		}
		t.failf(call.Pos(), "%s on the muxer condition variable is not modelled", name)
	case rn == "Cond" && name == "Wait":
		t.failf(call.Pos(), "Wait on a condition variable that is not the muxer's")
	}
	return []*Node{atom("ANote " + q(desc))}
}

func (c *fctx) call(call *ast.CallExpr) []*Node {
	t := c.t
	fun := ast.Unparen(call.Fun)
	// conversions and builtins
	if tv, ok := t.pkg.Info.Types[fun]; ok && (tv.IsType() || tv.IsBuiltin()) {
		return c.exprs(call.Args)
	}
	var out []*Node
	switch f := fun.(type) {
	case *ast.FuncLit:
		out = c.exprs(call.Args)
		body := c.sub(func(c2 *fctx) []*Node {
			c2.breakable = nil
			return c2.block(f.Body.List)
		})
		return append(out, &Node{Kind: "fn", Text: "func literal", A: body})
	case *ast.Ident:
		out = c.exprs(call.Args)
		obj := t.pkg.Info.Uses[f]
		if fn, ok := obj.(*types.Func); ok {
			return append(out, c.static(call, fn, nil)...)
		}
		// a local variable or parameter of function type
		out = append(out, atom("ANote "+q("dynamic call "+f.Name)))
		if c.returnsError(call) {
			out = append(out, atom("AFallible "+q(f.Name)))
		}
		return out
	case *ast.SelectorExpr:
		sel := t.pkg.Info.Selections[f]
		if sel == nil {
			// package-qualified function
			out = c.exprs(call.Args)
			if fn, ok := t.pkg.Info.Uses[f.Sel].(*types.Func); ok {
				if fn.Pkg() == t.pkg.Types {
					return append(out, c.static(call, fn, nil)...)
				}
				if c.returnsError(call) {
					out = append(out, atom("AFallible "+q(fn.Pkg().Name()+"."+fn.Name())))
				}
				return out
			}
			t.failf(call.Pos(), "call not understood")
		}
		out = append(c.expr(f.X), c.exprs(call.Args)...)
		switch sel.Kind() {
		case types.FieldVal:
			fld := sel.Obj().(*types.Var)
			if fld == t.fGenerate {
				who := c.whoOf(f.X)
				return append(out, atom(fmt.Sprintf("ARead %s %s", q("generateMediaPlaylist"), who)),
					atom("AFallible "+q("generateMediaPlaylist")))
			}
			owner := "?"
			if n := namedOf(sel.Recv()); n != nil {
				owner = n.Obj().Name()
			}
			out = append(out, atom("ANote "+q("callback "+owner+"."+fld.Name())))
			if c.returnsError(call) {
				out = append(out, atom("AFallible "+q(owner+"."+fld.Name())))
			}
			return out
		case types.MethodVal:
			fn := sel.Obj().(*types.Func)
			if fn.Pkg() != nil && fn.Pkg().Path() == "sync" {
				return append(out, c.syncOp(call, f, fn, false)...)
			}
			if fn.Pkg() == t.pkg.Types {
				if iface, isIface := sel.Recv().Underlying().(*types.Interface); isIface {
					return append(out, c.ifaceCall(call, fn, iface)...)
				}
				return append(out, c.static(call, fn, f.X)...)
			}
			if c.returnsError(call) {
				rn := "?"
				if n := namedOf(sel.Recv()); n != nil {
					rn = n.Obj().Name()
				}
				out = append(out, atom("AFallible "+q(rn+"."+fn.Name())))
			}
			return out
		}
	}
	t.failf(call.Pos(), "call not understood")
	return nil
}

// call of an interface method declared in this package: any implementation may run
func (c *fctx) ifaceCall(call *ast.CallExpr, m *types.Func, iface *types.Interface) []*Node {
	t := c.t
	var impls []*fnInfo
	for _, fi := range t.list {
		if fi.recv != nil && fi.decl.Name.Name == m.Name() &&
			(types.Implements(fi.recvTyp, iface) || types.Implements(types.NewPointer(fi.recvTyp), iface)) {
			impls = append(impls, fi)
		}
	}
	if len(impls) == 0 {
		t.failf(call.Pos(), "no implementation of interface method %s in the package", m.Name())
	}
	var chain []*Node
	for i := len(impls) - 1; i >= 0; i-- {
		fl := t.flatOf(impls[i])
		if len(fl) == 0 {
			continue
		}
		chain = []*Node{{Kind: "branch", A: []*Node{{Kind: "call", Text: impls[i].name}}, B: chain}}
	}
	if len(chain) == 0 && c.returnsError(call) {
		return []*Node{atom("AFallible " + q(m.Name()))}
	}
	return chain
}

// static call of a function or method of this package
func (c *fctx) static(call *ast.CallExpr, fn *types.Func, recvExpr ast.Expr) []*Node {
	t := c.t
	if fn.Name() == "verifHook" && len(call.Args) == 1 {
		if bl, ok := call.Args[0].(*ast.BasicLit); ok {
			s, _ := strconv.Unquote(bl.Value)
			return []*Node{atom("ANote " + q("hook "+s))}
		}
	}
	fi := t.fns[fn]
	if fi == nil {
		t.failf(call.Pos(), "function %s has no body", fn.Name())
	}
	if fi.mutKind != "" {
		who := c.whoOf(recvExpr)
		t.flatOf(fi)
		return []*Node{atom(fmt.Sprintf("AMut %s %s", fi.mutKind, who))}
	}
	if t.structural(fi) {
		t.strictOf(fi)
		return []*Node{{Kind: "call", Text: fi.name}}
	}
	if len(t.flatOf(fi)) > 0 {
		return []*Node{{Kind: "call", Text: fi.name}}
	}
	if c.returnsError(call) {
		nm := fi.name
		if recvExpr != nil && fi.recvTyp == t.stream {
			nm += "@" + c.whoOf(recvExpr)
		}
		return []*Node{atom("AFallible " + q(nm))}
	}
	return nil
}

func (c *fctx) sub(f func(*fctx) []*Node) []*Node {
	c2 := *c
	c2.breakable = append([]string{}, c.breakable...)
	return f(&c2)
}

func (c *fctx) block(list []ast.Stmt) []*Node {
	var out []*Node
	for _, s := range list {
		out = append(out, c.stmt(s)...)
	}
	return out
}

// err != nil (op = token.NEQ) or err == nil (op = token.EQL) on a variable of type error
func (c *fctx) isErrCmpNil(e ast.Expr, op token.Token) bool {
	b, ok := ast.Unparen(e).(*ast.BinaryExpr)
	if !ok || b.Op != op {
		return false
	}
	id, ok := b.Y.(*ast.Ident)
	if !ok || id.Name != "nil" {
		return false
	}
	x, ok := ast.Unparen(b.X).(*ast.Ident)
	if !ok {
		return false
	}
	tv, ok := c.t.pkg.Info.Types[x]
	return ok && types.Identical(tv.Type, c.t.errType)
}

func (c *fctx) isNotLeading(e ast.Expr) bool {
	u, ok := ast.Unparen(e).(*ast.UnaryExpr)
	if !ok || u.Op != token.NOT {
		return false
	}
	se, ok := ast.Unparen(u.X).(*ast.SelectorExpr)
	if !ok || c.t.selField(se) != c.t.fIsLeading {
		return false
	}
	id, ok := ast.Unparen(se.X).(*ast.Ident)
	return ok && c.rangeVars[c.t.pkg.Info.Uses[id]]
}

func (c *fctx) lhs(e ast.Expr) []*Node {
	t := c.t
	e = ast.Unparen(e)
	if se, ok := e.(*ast.SelectorExpr); ok {
		out := c.expr(se.X)
		if f := t.selField(se); f != nil {
			if _, ok := t.observed[f]; ok {
				who := "WSelf"
				if f != t.fParts {
					who = c.whoOf(se.X)
				}
				out = append(out, atom(fmt.Sprintf("AWrite %s %s", q(f.Name()), who)))
			}
		}
		return out
	}
	switch x := e.(type) {
	case *ast.Ident:
		return nil
	case *ast.IndexExpr:
		return append(c.expr(x.X), c.expr(x.Index)...)
	case *ast.StarExpr:
		return c.expr(x.X)
	}
	t.failf(e.Pos(), "assignment target %T not understood", e)
	return nil
}

func (c *fctx) stmt(s ast.Stmt) []*Node {
	t := c.t
	switch x := s.(type) {
	case nil, *ast.EmptyStmt:
		return nil
	case *ast.ExprStmt:
		return c.expr(x.X)
	case *ast.AssignStmt:
		out := c.exprs(x.Rhs)
		if x.Tok != token.ASSIGN && x.Tok != token.DEFINE {
			// x op= y reads x
			out = append(out, c.exprs(x.Lhs)...)
		}
		for _, l := range x.Lhs {
			out = append(out, c.lhs(l)...)
		}
		return out
	case *ast.IncDecStmt:
		return append(c.expr(x.X), c.lhs(x.X)...)
	case *ast.DeclStmt:
		var out []*Node
		if gd, ok := x.Decl.(*ast.GenDecl); ok {
			for _, sp := range gd.Specs {
				if vs, ok := sp.(*ast.ValueSpec); ok {
					out = append(out, c.exprs(vs.Values)...)
				}
			}
		}
		return out
	case *ast.ReturnStmt:
		return append(c.exprs(x.Results), &Node{Kind: "return"})
	case *ast.BlockStmt:
		return c.block(x.List)
	case *ast.BranchStmt:
		if x.Label != nil {
			t.failf(x.Pos(), "labelled %s", x.Tok)
		}
		switch x.Tok {
		case token.BREAK:
			if len(c.breakable) == 0 || c.breakable[len(c.breakable)-1] != "loop" {
				if c.strict {
					t.failf(x.Pos(), "break that does not leave a loop")
				}
				return nil
			}
			return []*Node{{Kind: "break"}}
		case token.CONTINUE:
			if c.strict {
				t.failf(x.Pos(), "continue is not modelled")
			}
			return nil
		}
		t.failf(x.Pos(), "%s is not modelled", x.Tok)
	case *ast.IfStmt:
		out := c.stmt(x.Init)
		if c.isErrCmpNil(x.Cond, token.NEQ) || c.isErrCmpNil(x.Cond, token.EQL) {
			then := c.sub(func(c2 *fctx) []*Node { return c2.block(x.Body.List) })
			els := c.sub(func(c2 *fctx) []*Node { return c2.stmt(x.Else) })
			if c.isErrCmpNil(x.Cond, token.NEQ) {
				return append(out, &Node{Kind: "iferr", A: then, B: els})
			}
			return append(out, &Node{Kind: "iferr", A: els, B: then})
		}
		if x.Else == nil && c.isNotLeading(x.Cond) {
			body := c.sub(func(c2 *fctx) []*Node { return c2.block(x.Body.List) })
			return append(out, &Node{Kind: "ifnl", A: body})
		}
		out = append(out, c.expr(x.Cond)...)
		a := c.sub(func(c2 *fctx) []*Node { return c2.block(x.Body.List) })
		b := c.sub(func(c2 *fctx) []*Node { return c2.stmt(x.Else) })
		return append(out, &Node{Kind: "branch", A: a, B: b})
	case *ast.SwitchStmt:
		out := c.stmt(x.Init)
		out = append(out, c.expr(x.Tag)...)
		return append(out, c.clauses(x.Body.List)...)
	case *ast.TypeSwitchStmt:
		out := c.stmt(x.Init)
		out = append(out, c.stmt(x.Assign)...)
		return append(out, c.clauses(x.Body.List)...)
	case *ast.ForStmt:
		out := c.stmt(x.Init)
		body := c.sub(func(c2 *fctx) []*Node {
			c2.breakable = append(c2.breakable, "loop")
			var b []*Node
			if x.Cond != nil {
				b = append(b, c2.expr(x.Cond)...)
				b = append(b, &Node{Kind: "branch", A: []*Node{{Kind: "break"}}})
			}
			b = append(b, c2.block(x.Body.List)...)
			return append(b, c2.stmt(x.Post)...)
		})
		return append(out, &Node{Kind: "loop", A: body})
	case *ast.RangeStmt:
		out := c.expr(x.X)
		if t.selField(x.X) == t.fStreams {
			// the read of m.streams itself is not an event; the loop variable denotes the current stream
			if k, ok := x.Key.(*ast.Ident); x.Key != nil && (!ok || k.Name != "_") {
				t.failf(x.Pos(), "range over m.streams with an index variable")
			}
			body := c.sub(func(c2 *fctx) []*Node {
				c2.breakable = append(c2.breakable, "loop")
				rv := map[types.Object]bool{}
				for k, v := range c.rangeVars {
					rv[k] = v
				}
				if v, ok := x.Value.(*ast.Ident); ok && v.Name != "_" {
					if o := t.pkg.Info.Defs[v]; o != nil {
						rv[o] = true
					} else if o := t.pkg.Info.Uses[v]; o != nil {
						rv[o] = true
					}
				}
				c2.rangeVars = rv
				return c2.block(x.Body.List)
			})
			return append(out, &Node{Kind: "for", A: body})
		}
		body := c.sub(func(c2 *fctx) []*Node {
			c2.breakable = append(c2.breakable, "loop")
			b := []*Node{{Kind: "branch", A: []*Node{{Kind: "break"}}}}
			return append(b, c2.block(x.Body.List)...)
		})
		return append(out, &Node{Kind: "loop", A: body})
	case *ast.DeferStmt:
		call := x.Call
		if se, ok := ast.Unparen(call.Fun).(*ast.SelectorExpr); ok {
			if sel := t.pkg.Info.Selections[se]; sel != nil && sel.Kind() == types.MethodVal {
				fn := sel.Obj().(*types.Func)
				if fn.Pkg() != nil && fn.Pkg().Path() == "sync" {
					ops := c.syncOp(call, se, fn, true)
					if len(ops) == 1 && ops[0].Text == "ADeferUnlock" {
						return ops
					}
					if c.strict {
						t.failf(x.Pos(), "deferred sync operation that is not Unlock of the muxer mutex")
					}
					return nil
				}
				if fn.Pkg() != t.pkg.Types {
					return nil // e.g. defer r.Close()
				}
			}
		}
		// anything else must be free of events
		ev := c.sub(func(c2 *fctx) []*Node { return c2.expr(call) })
		if len(ev) > 0 && c.strict {
			t.failf(x.Pos(), "deferred call with events")
		}
		return nil
	case *ast.LabeledStmt, *ast.GoStmt, *ast.SelectStmt, *ast.SendStmt:
		t.failf(s.Pos(), "statement %T is not modelled", s)
	}
	t.failf(s.Pos(), "statement %T not understood", s)
	return nil
}

// switch clauses: exactly one body (or none, when there is no default) runs
func (c *fctx) clauses(list []ast.Stmt) []*Node {
	t := c.t
	var pre []*Node
	hasDefault := false
	var bodies [][]*Node
	for _, cl := range list {
		cc := cl.(*ast.CaseClause)
		if cc.List == nil {
			hasDefault = true
		}
		pre = append(pre, c.exprs(cc.List)...)
		body := c.sub(func(c2 *fctx) []*Node {
			c2.breakable = append(c2.breakable, "switch")
			for _, s := range cc.Body {
				if b, ok := s.(*ast.BranchStmt); ok && b.Tok == token.FALLTHROUGH {
					t.failf(b.Pos(), "fallthrough")
				}
			}
			return c2.block(cc.Body)
		})
		bodies = append(bodies, body)
	}
	var chain []*Node
	if !hasDefault {
		chain = nil
	}
	for i := len(bodies) - 1; i >= 0; i-- {
		if i == len(bodies)-1 && hasDefault {
			chain = bodies[i]
			continue
		}
		chain = []*Node{{Kind: "branch", A: bodies[i], B: chain}}
	}
	return append(pre, chain...)
}

// ---------------------------------------------------------------- classes of functions

func hasLockRelevant(ns []*Node, t *tool, seen map[string]bool) bool {
	for _, n := range ns {
		switch n.Kind {
		case "atom":
			for _, p := range []string{"ALock", "AUnlock", "ADeferUnlock", "AWait", "AMut", "AWrite"} {
				if strings.HasPrefix(n.Text, p) {
					return true
				}
			}
		case "call":
			if !seen[n.Text] {
				seen[n.Text] = true
				for _, fi := range t.list {
					if fi.name == n.Text && hasLockRelevant(t.flatOf(fi), t, seen) {
						return true
					}
				}
			}
		}
		if hasLockRelevant(n.A, t, seen) || hasLockRelevant(n.B, t, seen) {
			return true
		}
	}
	return false
}

// a function is translated with its control flow when it (transitively) operates on the mutex,
// waits, rotates a stream or writes an observed field; otherwise a flat list of its events is enough
func (t *tool) structural(fi *fnInfo) bool {
	if fi.mutKind != "" {
		return false
	}
	return hasLockRelevant(t.flatOf(fi), t, map[string]bool{})
}

func (t *tool) newCtx(fi *fnInfo, strict bool) *fctx {
	c := &fctx{t: t, fi: fi, strict: strict, rangeVars: map[types.Object]bool{}}
	if strict {
		fi.strictSkipped = nil
		c.skipped = &fi.strictSkipped
	} else {
		fi.flatSkipped = nil
		c.skipped = &fi.flatSkipped
	}
	return c
}

// flat summary: the events of the body in source order, without control flow, duplicates removed
func (t *tool) flatOf(fi *fnInfo) []*Node {
	if fi.flatDone {
		return fi.flat
	}
	if fi.inFlat {
		return nil // recursion: the outer call collects the events
	}
	fi.inFlat = true
	tree := t.newCtx(fi, false).block(fi.decl.Body.List)
	var out []*Node
	seen := map[string]bool{}
	var rec func(ns []*Node)
	rec = func(ns []*Node) {
		for _, n := range ns {
			switch n.Kind {
			case "atom", "call":
				k := n.Kind + ":" + n.Text
				if !seen[k] {
					seen[k] = true
					out = append(out, &Node{Kind: n.Kind, Text: n.Text})
				}
			}
			rec(n.A)
			rec(n.B)
		}
	}
	rec(tree)
	fi.flat = out
	fi.flatDone = true
	fi.inFlat = false
	return out
}

func (t *tool) strictOf(fi *fnInfo) []*Node {
	if fi.strict != nil {
		return fi.strict
	}
	fi.strict = []*Node{} // recursion guard
	fi.strict = t.newCtx(fi, true).block(fi.decl.Body.List)
	if fi.strict == nil {
		fi.strict = []*Node{}
	}
	return fi.strict
}

// ---------------------------------------------------------------- printing

func printProg(sb *strings.Builder, ns []*Node, ind string) {
	if len(ns) == 0 {
		sb.WriteString("PDone")
		return
	}
	n := ns[0]
	rest := ns[1:]
	sub := func(b []*Node) {
		sb.WriteString("\n" + ind + "  (")
		printProg(sb, b, ind+"   ")
		sb.WriteString(")")
	}
	switch n.Kind {
	case "atom":
		sb.WriteString(n.Text + " ;;\n" + ind)
		printProg(sb, rest, ind)
	case "break":
		sb.WriteString("PBreak")
	case "return":
		sb.WriteString("PReturn")
	case "call":
		sb.WriteString("PCall " + q(n.Text) + " (\n" + ind)
		printProg(sb, rest, ind)
		sb.WriteString(")")
	case "ifnl", "for", "loop":
		name := map[string]string{"ifnl": "PIfNL", "for": "PFor", "loop": "PLoop"}[n.Kind]
		sb.WriteString(name)
		sub(n.A)
		sub(rest)
	case "iferr":
		sb.WriteString("PIfErr")
		sub(n.A)
		sub(n.B)
		sub(rest)
	case "branch":
		sb.WriteString("PBranch")
		sub(n.A)
		sub(n.B)
		sub(rest)
	case "fn":
		sb.WriteString("PFn " + q(n.Text))
		sub(n.A)
		sub(rest)
	default:
		fatalf("printProg: kind %s", n.Kind)
	}
}

func coqIdent(name string) string {
	r := strings.NewReplacer(".", "_", "*", "", " ", "_")
	return "fn_" + r.Replace(name)
}

func countAtoms(ns []*Node, prefix string) int {
	k := 0
	for _, n := range ns {
		if n.Kind == "atom" && strings.HasPrefix(n.Text, prefix) {
			k++
		}
		k += countAtoms(n.A, prefix) + countAtoms(n.B, prefix)
	}
	return k
}

type fnReport struct {
	Name     string       `json:"name"`
	Class    string       `json:"class"` // structural | flat | rotation
	Lock     int          `json:"lock"`
	Unlock   int          `json:"unlock"`
	Defer    int          `json:"defer_unlock"`
	Wait     int          `json:"wait"`
	Mut      int          `json:"mut"`
	Recount  int          `json:"ast_recount_mutex_ops"` // independent syntactic count, whole declaration
	Skipped  []skippedLit `json:"func_literals_not_invoked"`
	Coq      string       `json:"coq"`
	File     string       `json:"file"`
	Reported bool         `json:"-"`
}

type report struct {
	Functions     []*fnReport       `json:"functions"`
	Writer        []string          `json:"writer_entries"`
	Readers       []string          `json:"reader_entries"`
	Rotations     []string          `json:"rotation_methods"`
	Untranslated  map[string]int    `json:"untranslated_functions_with_mutex_ops"`
	Notes         []string          `json:"notes"`
	SelfCheck     []string          `json:"self_check_failures"`
	Mutants       []string          `json:"mutants"`
	ObservedField map[string]string `json:"observed_fields"`
}

// independent recount: purely by the shape x.mutex.Lock / x.mutex.Unlock and the static type of x
func (t *tool) recount(fd *ast.FuncDecl) int {
	n := 0
	ast.Inspect(fd, func(m ast.Node) bool {
		ce, ok := m.(*ast.CallExpr)
		if !ok {
			return true
		}
		se, ok := ce.Fun.(*ast.SelectorExpr)
		if !ok || (se.Sel.Name != "Lock" && se.Sel.Name != "Unlock") {
			return true
		}
		in, ok := se.X.(*ast.SelectorExpr)
		if !ok || in.Sel.Name != "mutex" {
			return true
		}
		tv, ok := t.pkg.Info.Types[in.X]
		if !ok {
			return true
		}
		s := tv.Type.String()
		if strings.HasSuffix(s, ".Muxer") || strings.HasSuffix(s, ".muxerStream") {
			n++
		}
		return true
	})
	return n
}

type emitted struct {
	fi    *fnInfo
	class string
	body  []*Node
}

func (t *tool) collect(writer, readers []*fnInfo) []emitted {
	var out []emitted
	done := map[string]bool{}
	var visit func(fi *fnInfo, entry bool)
	var visitNodes func(ns []*Node)
	visitNodes = func(ns []*Node) {
		for _, n := range ns {
			if n.Kind == "call" {
				for _, fi := range t.list {
					if fi.name == n.Text {
						visit(fi, false)
					}
				}
			}
			visitNodes(n.A)
			visitNodes(n.B)
		}
	}
	visit = func(fi *fnInfo, entry bool) {
		if done[fi.name] {
			return
		}
		done[fi.name] = true
		var e emitted
		switch {
		case fi.mutKind != "":
			e = emitted{fi, "rotation", t.flatOf(fi)}
		case entry || t.structural(fi):
			e = emitted{fi, "structural", t.strictOf(fi)}
		default:
			e = emitted{fi, "flat", t.flatOf(fi)}
		}
		out = append(out, e)
		visitNodes(e.body)
	}
	for _, fi := range writer {
		visit(fi, true)
	}
	for _, fi := range readers {
		visit(fi, true)
	}
	// rotation methods and generators stand for single events: their bodies are emitted to be checked lock-free
	for _, fi := range t.list {
		if fi.mutKind != "" || (fi.recvTyp == t.stream && strings.HasPrefix(fi.decl.Name.Name, "generateMediaPlaylist")) {
			if !done[fi.name] {
				done[fi.name] = true
				e := emitted{fi, "rotation", t.flatOf(fi)}
				out = append(out, e)
				visitNodes(e.body)
			}
		}
	}
	return out
}

const coqImports = "From Coq Require Import List String ZArith.\nFrom GoHls Require Import Model.MuxAtomic.\nImport ListNotations.\nOpen Scope string_scope.\n\n"

func (t *tool) coqText(em []emitted, writer, readers, atomics []string, defName string) string {
	var sb strings.Builder
	for _, e := range em {
		f, ln := t.l.relFile(e.fi.decl.Pos())
		_ = ln
		fmt.Fprintf(&sb, "(* %s (%s), %s *)\nDefinition %s : prog :=\n  ", e.fi.name, f, e.class, coqIdent(e.fi.name))
		printProg(&sb, e.body, "  ")
		sb.WriteString(".\n\n")
	}
	list := func(ss []string) string {
		var qs []string
		for _, s := range ss {
			qs = append(qs, q(s))
		}
		return "[" + strings.Join(qs, "; ") + "]"
	}
	fmt.Fprintf(&sb, "Definition %s : skeleton := {|\n  sk_fns := [\n", defName)
	for i, e := range em {
		sep := ";"
		if i == len(em)-1 {
			sep = ""
		}
		fmt.Fprintf(&sb, "    (%s, %s)%s\n", q(e.fi.name), coqIdent(e.fi.name), sep)
	}
	fmt.Fprintf(&sb, "  ];\n  sk_writer := %s;\n  sk_readers := %s;\n  sk_mutators := %s\n|}.\n", list(writer), list(readers), list(atomics))
	return sb.String()
}

func names(fs []*fnInfo) []string {
	var out []string
	for _, f := range fs {
		out = append(out, f.name)
	}
	return out
}

func (t *tool) reset() {
	for _, fi := range t.list {
		fi.strict, fi.flat, fi.flatDone, fi.inFlat, fi.strictSkipped, fi.flatSkipped = nil, nil, false, false, nil, nil
	}
}

func main() {
	repo := flag.String("repo", ".", "repository root")
	coqOut := flag.String("coq", "", "output .v file")
	repOut := flag.String("report", "", "output JSON report")
	mutOut := flag.String("mutants", "", "output .v file with the skeletons of in-memory mutants of the source (self-test)")
	flag.Parse()
	root, err := filepath.Abs(*repo)
	if err != nil {
		fatalf("%v", err)
	}
	l := newLoader(root)
	t := &tool{l: l}
	t.pkg = l.load(l.modPath)
	t.index()
	t.errType = types.Universe.Lookup("error").Type()
	t.muxer = t.lookupNamed("Muxer")
	t.stream = t.lookupNamed("muxerStream")
	t.segFMP4 = t.lookupNamed("muxerSegmentFMP4")
	t.fMuxMutex = fieldOf(t.muxer, "mutex")
	t.fMuxCond = fieldOf(t.muxer, "cond")
	t.fStrMutex = fieldOf(t.stream, "mutex")
	t.fStrCond = fieldOf(t.stream, "cond")
	t.fLeading = fieldOf(t.muxer, "leadingStream")
	t.fStreams = fieldOf(t.muxer, "streams")
	t.fIsLeading = fieldOf(t.stream, "isLeading")
	t.fGenerate = fieldOf(t.stream, "generateMediaPlaylist")
	t.fParts = fieldOf(t.segFMP4, "parts")
	if s := t.fMuxMutex.Type().String(); s != "sync.Mutex" {
		fatalf("Muxer.mutex has type %s", s)
	}
	if s := t.fStrMutex.Type().String(); s != "*sync.Mutex" {
		fatalf("muxerStream.mutex has type %s", s)
	}
	t.observed = map[*types.Var]string{
		fieldOf(t.stream, "segments"):           "KSeg",
		fieldOf(t.stream, "segmentDeleteCount"): "KSeg",
		fieldOf(t.stream, "targetDuration"):     "KSeg",
		fieldOf(t.stream, "partTargetDuration"): "KParts",
		t.fParts:                                "KParts",
	}
	t.checkAliasing()
	gens := t.checkGenerators()
	t.findMutators()

	// writer entries: the methods of muxerSegmenterParent as implemented by *Muxer
	parent, ok := t.lookupNamed("muxerSegmenterParent").Underlying().(*types.Interface)
	if !ok {
		fatalf("muxerSegmenterParent is not an interface")
	}
	var writer, readers []*fnInfo
	for i := 0; i < parent.NumMethods(); i++ {
		m := parent.Method(i)
		o, _, _ := types.LookupFieldOrMethod(types.NewPointer(t.muxer), true, t.pkg.Types, m.Name())
		fn, ok := o.(*types.Func)
		if !ok || t.fns[fn] == nil {
			fatalf("*Muxer does not implement muxerSegmenterParent.%s", m.Name())
		}
		writer = append(writer, t.fns[fn])
	}
	sort.Slice(writer, func(i, j int) bool { return writer[i].name < writer[j].name })
	for _, nm := range []string{"Muxer.handleMultivariantPlaylist", "muxerStream.handleMediaPlaylist"} {
		var f *fnInfo
		for _, fi := range t.list {
			if fi.name == nm {
				f = fi
			}
		}
		if f == nil {
			fatalf("%s not found", nm)
		}
		readers = append(readers, f)
	}
	var rot []*fnInfo
	for _, fi := range t.list {
		if fi.mutKind != "" {
			rot = append(rot, fi)
		}
	}
	if len(rot) == 0 {
		fatalf("no per-stream rotation method found")
	}
	atomics := append(names(rot), names(gens)...)

	em := t.collect(writer, readers)
	rep := &report{Writer: names(writer), Readers: names(readers), Rotations: names(rot), Untranslated: map[string]int{},
		ObservedField: map[string]string{}}
	for f, k := range t.observed {
		rep.ObservedField[f.Name()] = k
	}
	nMut := 0
	translated := map[string]bool{}
	for _, e := range em {
		translated[e.fi.name] = true
		f, _ := t.l.relFile(e.fi.decl.Pos())
		r := &fnReport{Name: e.fi.name, Class: e.class, File: f, Coq: coqIdent(e.fi.name),
			Lock: countAtoms(e.body, "ALock"), Unlock: countAtoms(e.body, "AUnlock"), Defer: countAtoms(e.body, "ADeferUnlock"),
			Wait: countAtoms(e.body, "AWait"), Mut: countAtoms(e.body, "AMut"), Recount: t.recount(e.fi.decl), Skipped: e.fi.flatSkipped}
		if e.class == "structural" {
			r.Skipped = e.fi.strictSkipped
		}
		nMut += r.Mut
		inLits := 0
		for _, s := range r.Skipped {
			inLits += s.LockOps
		}
		// T leg self-check: every mutex operation of the declaration is either an event of the skeleton or
		// inside a func literal that is not invoked where it is written
		if e.class == "structural" && r.Lock+r.Unlock+r.Defer+inLits != r.Recount {
			rep.SelfCheck = append(rep.SelfCheck, fmt.Sprintf("%s: skeleton has %d mutex operations (+%d in literals not invoked), the AST recount finds %d",
				e.fi.name, r.Lock+r.Unlock+r.Defer, inLits, r.Recount))
		}
		rep.Functions = append(rep.Functions, r)
	}
	for _, fi := range t.list {
		if !translated[fi.name] {
			if n := t.recount(fi.decl); n > 0 {
				rep.Untranslated[fi.name] = n
			}
		}
	}
	if nMut == 0 {
		fatalf("no rotation call found in the writer's code")
	}
	rep.Notes = t.notes
	header := "(* GENERATED by tools/critsec from the Go source (muxer.go, muxer_stream.go, muxer_server.go, ...); do not edit.\n" +
		"   Lock skeletons in the language of Model/MuxAtomic.v. *)\n"
	if *coqOut != "" {
		txt := header + coqImports + t.coqText(em, names(writer), names(readers), atomics, "generated")
		if err := os.WriteFile(*coqOut, []byte(txt), 0o644); err != nil {
			fatalf("%v", err)
		}
	}
	if *mutOut != "" {
		rep.Mutants = t.mutants(*mutOut, writer, readers, atomics)
	}
	if *repOut != "" {
		b, _ := json.MarshalIndent(rep, "", " ")
		if err := os.WriteFile(*repOut, append(b, '\n'), 0o644); err != nil {
			fatalf("%v", err)
		}
	}
	if len(rep.SelfCheck) > 0 {
		fatalf("self-check failed: %s", strings.Join(rep.SelfCheck, "; "))
	}
	fmt.Printf("critsec: %d functions (%d writer entries, %d handlers, %d rotation methods), %d rotation calls\n",
		len(em), len(writer), len(readers), len(rot), nMut)
}
