// Loading and type-checking of the analysed packages.
//
// Every package of the module under analysis is parsed and type-checked by this tool
// itself (build constraints honoured here: *_test.go and files whose //go:build line
// needs the `verif` tag are skipped); packages outside the module come from the
// standard "source" importer (run with cwd = the repository so that module lookups
// resolve offline).
package main

import (
	"fmt"
	"go/ast"
	"go/build/constraint"
	"go/importer"
	"go/parser"
	"go/token"
	"go/types"
	"os"
	"path/filepath"
	"runtime"
	"sort"
	"strings"
)

// Pkg is one parsed and checked package of the module.
type Pkg struct {
	Path  string
	Dir   string // relative to the repository root
	Files []*ast.File
	Types *types.Package
	Info  *types.Info
}

type loader struct {
	root    string // repository root (absolute)
	modPath string
	fset    *token.FileSet
	pkgs    map[string]*Pkg
	loading map[string]bool
	ext     types.ImporterFrom
}

func fatalf(format string, a ...interface{}) {
	fmt.Fprintf(os.Stderr, "critsec: "+format+"\n", a...)
	os.Exit(1)
}

func newLoader(root string) *loader {
	gm, err := os.ReadFile(filepath.Join(root, "go.mod"))
	if err != nil {
		fatalf("cannot read go.mod: %v", err)
	}
	mod := ""
	for _, l := range strings.Split(string(gm), "\n") {
		l = strings.TrimSpace(l)
		if strings.HasPrefix(l, "module ") {
			mod = strings.TrimSpace(strings.TrimPrefix(l, "module "))
		}
	}
	if mod == "" {
		fatalf("no module line in go.mod")
	}
	fset := token.NewFileSet()
	ext, ok := importer.ForCompiler(fset, "source", nil).(types.ImporterFrom)
	if !ok {
		fatalf("source importer does not implement ImporterFrom")
	}
	return &loader{root: root, modPath: mod, fset: fset, pkgs: map[string]*Pkg{}, loading: map[string]bool{}, ext: ext}
}

// buildTagOK evaluates a //go:build expression with the tags of a plain (non-verif) build.
func buildTagOK(tag string) bool {
	switch tag {
	case runtime.GOOS, runtime.GOARCH, "gc", "unix", "cgo":
		return true
	case "verif", "race", "ignore":
		return false
	}
	if strings.HasPrefix(tag, "go1.") {
		return true
	}
	return false
}

func fileIncluded(f *ast.File) bool {
	for _, cg := range f.Comments {
		if cg.Pos() >= f.Package {
			break
		}
		for _, c := range cg.List {
			if constraint.IsGoBuild(c.Text) {
				x, err := constraint.Parse(c.Text)
				if err != nil {
					fatalf("bad build constraint %q", c.Text)
				}
				return x.Eval(buildTagOK)
			}
		}
	}
	return true
}

func (l *loader) Import(path string) (*types.Package, error) {
	return l.ImportFrom(path, l.root, 0)
}

func (l *loader) ImportFrom(path, dir string, mode types.ImportMode) (*types.Package, error) {
	if path == l.modPath || strings.HasPrefix(path, l.modPath+"/") {
		p := l.load(path)
		return p.Types, nil
	}
	return l.ext.ImportFrom(path, dir, mode)
}

func (l *loader) load(path string) *Pkg {
	if p, ok := l.pkgs[path]; ok {
		return p
	}
	if l.loading[path] {
		fatalf("import cycle through %s", path)
	}
	l.loading[path] = true
	rel := strings.TrimPrefix(strings.TrimPrefix(path, l.modPath), "/")
	if rel == "" {
		rel = "."
	}
	dir := filepath.Join(l.root, rel)
	ents, err := os.ReadDir(dir)
	if err != nil {
		fatalf("cannot read %s: %v", dir, err)
	}
	var names []string
	for _, e := range ents {
		n := e.Name()
		if e.IsDir() || !strings.HasSuffix(n, ".go") || strings.HasSuffix(n, "_test.go") {
			continue
		}
		names = append(names, n)
	}
	sort.Strings(names)
	p := &Pkg{Path: path, Dir: rel}
	for _, n := range names {
		f, err := parser.ParseFile(l.fset, filepath.Join(dir, n), nil, parser.ParseComments)
		if err != nil {
			fatalf("parse %s: %v", n, err)
		}
		if !fileIncluded(f) {
			continue
		}
		p.Files = append(p.Files, f)
	}
	if len(p.Files) == 0 {
		fatalf("no Go files in %s", dir)
	}
	p.Info = &types.Info{
		Types:      map[ast.Expr]types.TypeAndValue{},
		Defs:       map[*ast.Ident]types.Object{},
		Uses:       map[*ast.Ident]types.Object{},
		Selections: map[*ast.SelectorExpr]*types.Selection{},
		Implicits:  map[ast.Node]types.Object{},
		Scopes:     map[ast.Node]*types.Scope{},
	}
	conf := types.Config{Importer: l, Error: func(err error) { fatalf("type error: %v", err) }}
	tp, err := conf.Check(path, l.fset, p.Files, p.Info)
	if err != nil {
		fatalf("type-check %s: %v", path, err)
	}
	p.Types = tp
	l.pkgs[path] = p
	delete(l.loading, path)
	return p
}

// relFile returns the file of pos relative to the repository root, and its line.
func (l *loader) relFile(pos token.Pos) (string, int) {
	p := l.fset.Position(pos)
	r, err := filepath.Rel(l.root, p.Filename)
	if err != nil {
		r = p.Filename
	}
	return filepath.ToSlash(r), p.Line
}
