#!/bin/bash
# Mutation self-test of the C13 check on SCRATCH COPIES of /repo (never /repo itself).
# usage: tools/clientcontent/selftest.sh [mutant ...]     (default: all)
# For each mutant: copy /repo to /var/tmp/c13mut, apply the edit, run `bin/check C13` with
# VERIF_REPO pointing at the copy (VERIF_C13_N limits the number of generated streams), print
# the verdict lines, delete the copy and /verif/work/alt-*.
set -u
export GOFLAGS=-mod=mod GOPROXY=off GOSUMDB=off GOTOOLCHAIN=local
S=/var/tmp/c13mut
all="all-repairs fix-f5 fix-timescale no-max-tracks unknown-track-is-error ts-h265-supported no-leading-check close-ignored ts-busy-loop"
[ $# -gt 0 ] && all="$*"
for m in $all; do
  rm -rf $S; cp -r /repo $S; rm -rf $S/.git
  case $m in
    all-repairs)   # the three proposed repairs (findings/C13-*.json); compared with the REPAIRED model: expect exit 0
      export VERIF_C13_REPAIRS=tracks,join
      python3 - <<'PY'
p='/var/tmp/c13mut/client_stream_processor_fmp4.go'
s=open(p).read()
old='''	p.leadingTrackID = fmp4PickLeadingTrack(&p.init)
'''
new='''	// skip tracks with unsupported codecs, reject invalid time scales
	var supportedTracks []*fmp4.InitTrack
	for _, track := range p.init.Tracks {
		if track.TimeScale == 0 {
			return fmt.Errorf("invalid time scale")
		}
		if codecs.FromFMP4(track.Codec) != nil {
			supportedTracks = append(supportedTracks, track)
		}
	}
	if len(supportedTracks) == 0 {
		return fmt.Errorf("no supported tracks found")
	}
	p.init.Tracks = supportedTracks

	p.leadingTrackID = fmp4PickLeadingTrack(&p.init)
'''
assert old in s
s=s.replace(old,new)
old='''			err := trackProc.push(ctx, &procEntryFMP4{
				partTrack: partTrack,
				dts:       dts,
				ntp:       ntp,
			})
			if err != nil {
				return err
			}
'''
new='''			entry := &procEntryFMP4{
				partTrack: partTrack,
				dts:       dts,
				ntp:       ntp,
			}

			// while pushing, collect the tokens of part tracks that have been processed,
			// otherwise track processors get stuck as soon as chPartTrackProcessed is full
			for pushed := false; !pushed; {
				select {
				case trackProc.queue <- entry:
					pushed = true
				case <-p.chPartTrackProcessed:
					partTrackCount--
				case <-ctx.Done():
					return fmt.Errorf("terminated")
				}
			}
'''
assert old in s
s=s.replace(old,new)
open(p,'w').write(s)
PY
      ;;
    fix-f5)   # the proposed fix for finding 1: tracks with a codec gohlslib does not know are neither exposed nor processed
      python3 - <<'PY'
import re
p='/var/tmp/c13mut/client_stream_processor_fmp4.go'
s=open(p).read()
s=s.replace('''	tracks := make([]*Track, len(p.init.Tracks))

	for i, track := range p.init.Tracks {
		tracks[i] = &Track{
			Codec:     codecs.FromFMP4(track.Codec),''','''	var supportedTracks []*fmp4.InitTrack
	for _, track := range p.init.Tracks {
		if codecs.FromFMP4(track.Codec) != nil {
			supportedTracks = append(supportedTracks, track)
		}
	}
	if len(supportedTracks) == 0 {
		return fmt.Errorf("no supported tracks found")
	}
	p.init.Tracks = supportedTracks
	p.leadingTrackID = fmp4PickLeadingTrack(&p.init)

	tracks := make([]*Track, len(p.init.Tracks))

	for i, track := range p.init.Tracks {
		tracks[i] = &Track{
			Codec:     codecs.FromFMP4(track.Codec),''')
open(p,'w').write(s)
PY
      ;;
    fix-timescale)  # the proposed fix for finding 2
      python3 - <<'PY'
p='/var/tmp/c13mut/client_stream_processor_fmp4.go'
s=open(p).read()
s=s.replace('''	tracks := make([]*Track, len(p.init.Tracks))
''','''	for _, track := range p.init.Tracks {
		if track.TimeScale == 0 {
			return fmt.Errorf("invalid time scale")
		}
	}

	tracks := make([]*Track, len(p.init.Tracks))
''')
open(p,'w').write(s)
PY
      ;;
    no-max-tracks)
      sed -i 's/if len(tracks) > clientMaxTracksPerStream {/if false {/' $S/client_stream_processor_fmp4.go ;;
    unknown-track-is-error)
      python3 - <<'PY'
p='/var/tmp/c13mut/client_stream_processor_fmp4.go'
s=open(p).read()
s=s.replace('''			if !ok {
				continue
			}''','''			if !ok {
				return fmt.Errorf("unknown track")
			}''')
open(p,'w').write(s)
PY
      ;;
    ts-h265-supported)
      sed -i 's/case \*mpegts.CodecH264, \*mpegts.CodecMPEG4Audio:/case *mpegts.CodecH264, *mpegts.CodecMPEG4Audio, *mpegts.CodecH265:/' $S/client_stream_processor_mpegts.go ;;
    no-leading-check)
      python3 - <<'PY'
p='/var/tmp/c13mut/client_stream_processor_fmp4.go'
s=open(p).read()
s=s.replace('''	if leadingPartTrack == nil {
		return fmt.Errorf("could not find data of leading track")
	}
''','')
open(p,'w').write(s)
PY
      ;;
    close-ignored)   # the end-of-stream wait no longer watches the context: Close() is not honoured
      python3 - <<'PY'
p='/var/tmp/c13mut/client_stream_processor_fmp4.go'
s=open(p).read()
s=s.replace('''		p.streamDownloader.setEnded()
		<-ctx.Done()''','''		select {}''')
open(p,'w').write(s)
PY
      ;;
    ts-busy-loop)    # the Read loop no longer stops at the end of the segment
      python3 - <<'PY'
p='/var/tmp/c13mut/client_stream_processor_mpegts.go'
s=open(p).read()
s=s.replace('''			if errors.Is(err, astits.ErrNoMorePackets) {
				break
			}''','''			if errors.Is(err, astits.ErrNoMorePackets) {
				continue
			}''')
open(p,'w').write(s)
PY
      ;;
    *) echo "unknown mutant $m"; continue ;;
  esac
  if diff -rq /repo $S -x .git >/dev/null; then echo "== $m: EDIT DID NOT APPLY"; continue; fi
  (cd $S && go build ./ 2>&1 | head -5)
  echo "== $m"
  (cd /verif && VERIF_REPO=$S VERIF_C13_N=${VERIF_C13_N:-250} timeout 3000 bin/check C13 --tier quick 2>&1 | grep -v "^KNOWN" | tail -6)
  for f in /verif/work/alt-*/replays/C13/*.json; do
    [ -f "$f" ] && python3 -c "
import json,sys
d=json.load(open('$f'))
print('   ', '$f'.split('/')[-1], '|', d.get('signature') or d.get('correspondence'), '|', (d.get('what') or d.get('detail') or str(d.get('errors') or ''))[:260].replace('\n',' '))"
  done
  rm -rf $S /verif/work/alt-*
  unset VERIF_C13_REPAIRS
done
