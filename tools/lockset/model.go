// Vocabulary of the analysis: object classes, held-token sets, abstract state, the
// annotation tables that describe the muxer's object life cycle.
package main

import (
	"go/ast"
	"go/types"
	"sort"
	"strings"
)

// Class abstracts where the object a pointer designates is in its life cycle.
//
//	Fresh  - allocated in this function, not yet stored anywhere (thread-local)
//	Open   - under construction, owned by the writer: stream.nextSegment / stream.nextPart,
//	         their storage; never yet appended to a list handlers read, handler not registered
//	Listed - reached through a list handlers read (stream.segments, segment.parts), through a
//	         variable captured by a registered handler closure, or owned by such an object
//	Linked - reached through a back pointer of a Listed object (part.segment, partDisk.s):
//	         known to be constructed, may still be Open
//	Shared - long-lived object created by Start (Muxer, streams, tracks, server, codecs)
//	Any    - unknown / several of the above
type Class int

const (
	Bot Class = iota
	Fresh
	Open
	Listed
	Linked
	Shared
	Any
	// PubHere - Listed, and published by this very function activation (it was Fresh/Open when the
	// function started working on it): its back pointer still designates the open object
	PubHere
)

func (c Class) String() string {
	return [...]string{"bot", "fresh", "open", "listed", "linked", "shared", "any", "listed"}[c]
}

func join(a, b Class) Class {
	if (a == PubHere && (b == PubHere || b == Fresh || b == Open)) || (b == PubHere && (a == Fresh || a == Open)) {
		// published on some paths only: no claim is made for it (see claims), its owner is open either way
		return PubHere
	}
	if a == PubHere {
		a = Listed
	}
	if b == PubHere {
		b = Listed
	}
	switch {
	case a == Bot:
		return b
	case b == Bot:
		return a
	case a == b:
		return a
	case (a == Fresh && b == Open) || (a == Open && b == Fresh):
		return Open
	case (a == Listed && b == Linked) || (a == Linked && b == Listed):
		return Linked
	}
	return Any
}

// own gives the class of an object owned by (stored in a field of) an object of class c.
func own(c Class) Class {
	if c == Fresh {
		return Open
	}
	return c
}

// up gives the class of the object a back pointer of an object of class c designates.
func up(c Class) Class {
	switch c {
	case Fresh, Open, PubHere:
		return Open
	case Listed, Linked:
		return Linked
	case Bot:
		return Bot
	}
	return Any
}

// fileParts gives the class of the parts of a storage file of class c.
func fileParts(c Class) Class {
	if c == Listed || c == PubHere {
		return Listed
	}
	if c == Bot {
		return Bot
	}
	return Any
}

// ---- annotation tables (checked against the source: a missing type/field is fatal) ----

// trackedTypes: the named struct types whose field selections make up the access table.
// value = true for life-cycle types (their objects are created and published while the
// muxer runs), false for long-lived ones.
var trackedTypes = map[string]bool{
	"Muxer": false, "muxerStream": false, "muxerSegmenter": false, "muxerTrack": false,
	"muxerServer": false, "Track": false,
	"muxerPart": true, "muxerSegmentFMP4": true, "muxerSegmentMPEGTS": true, "muxerGap": true,
	"storage.fileDisk": true, "storage.partDisk": true, "storage.fileRAM": true, "storage.partRAM": true,
	"codecs.H264": false, "codecs.H265": false, "codecs.VP9": false, "codecs.AV1": false,
	"codecs.Opus": false, "codecs.MPEG4Audio": false,
}

// fields that hold the object under construction
var openFields = map[string]bool{"muxerStream.nextSegment": true, "muxerStream.nextPart": true}

// lists that handlers read: appending publishes the element
var listFields = map[string]bool{"muxerStream.segments": true, "muxerSegmentFMP4.parts": true}

// ownership: the field's object shares the life cycle of its owner
var ownFields = map[string]bool{
	"muxerSegmentFMP4.storage": true, "muxerSegmentMPEGTS.storage": true,
	"muxerSegmentMPEGTS.storagePart": true, "muxerPart.storage": true,
}

// back pointers
var upFields = map[string]bool{"muxerPart.segment": true, "storage.partDisk.s": true}

// the parts of a storage file
var filePartsFields = map[string]bool{"storage.fileDisk.parts": true, "storage.fileRAM.parts": true}

// callbacks supplied by the user of the library: calls through these fields leave the analysed code
var externalFuncFields = map[string]bool{"muxerStream.onEncodeError": true, "Muxer.OnEncodeError": true}

// external methods that modify their receiver (a call on a struct-valued field is a write of the field)
var mutatingMethods = map[string]bool{"Write": true, "Seek": true, "Reset": true, "Truncate": true, "Grow": true}

// ---- held tokens ----
// "mu" = Muxer.mutex (= muxerStream.mutex, checked), "srv:W"/"srv:R" = muxerServer.mutex locked /
// read-locked, "@first" = inside Muxer.createFirstSegment, "@content" = hasContent() was observed true.
type tokset map[string]bool

func (s tokset) copy() tokset {
	r := tokset{}
	for k := range s {
		r[k] = true
	}
	return r
}

func (s tokset) sorted() []string {
	var r []string
	for k := range s {
		r = append(r, k)
	}
	sort.Strings(r)
	return r
}

func (s tokset) key() string { return strings.Join(s.sorted(), ",") }

func (s tokset) locks() string {
	var r []string
	for _, k := range s.sorted() {
		if !strings.HasPrefix(k, "@") {
			r = append(r, k)
		}
	}
	return strings.Join(r, ",")
}

func inter(a, b tokset) tokset {
	r := tokset{}
	for k := range a {
		if b[k] {
			r[k] = true
		}
	}
	return r
}

// State is the abstract state at a program point.
type State struct {
	held tokset
	cls  map[*types.Var]Class
	dead bool
}

func (s *State) copy() *State {
	r := &State{held: s.held.copy(), cls: map[*types.Var]Class{}, dead: s.dead}
	for k, v := range s.cls {
		r.cls[k] = v
	}
	return r
}

func meetStates(ss []*State) *State {
	var r *State
	for _, s := range ss {
		if s == nil || s.dead {
			continue
		}
		if r == nil {
			r = s.copy()
			continue
		}
		r.held = inter(r.held, s.held)
		for k, v := range s.cls {
			r.cls[k] = join(r.cls[k], v)
		}
	}
	if r == nil {
		return &State{held: tokset{}, cls: map[*types.Var]Class{}, dead: true}
	}
	return r
}

func sameCls(a, b *State) bool {
	if len(a.cls) != len(b.cls) {
		return false
	}
	for k, v := range a.cls {
		if b.cls[k] != v {
			return false
		}
	}
	return true
}

// Func is an analysed function: a declaration or a registered handler closure.
type Func struct {
	key    string // unique
	short  string // T.m / name / parent.funcN
	pkg    *Pkg
	decl   *ast.FuncDecl
	lit    *ast.FuncLit
	obj    *types.Func
	recv   *types.Var
	params []*types.Var
}

func (f *Func) body() *ast.BlockStmt {
	if f.decl != nil {
		return f.decl.Body
	}
	return f.lit.Body
}

// Row is one access: a field selection executed in a role with a held set and an object class.
type Row struct {
	File  string
	Line  int
	Fn    string
	Field string
	Write bool
	Role  string
	Held  []string
	Class Class
}

// Entry is the calling context of a function in a role (meet over all call sites).
type Entry struct {
	fn    *Func
	role  string
	held  tokset
	recv  Class
	args  []Class
	root  bool
	valid bool
}

type callEdge struct {
	callee *Func
	held   tokset
	recv   Class
	args   []Class
}
