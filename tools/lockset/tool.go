// The tool: indexes of the analysed packages, function registry, fixpoint driver.
package main

import (
	"fmt"
	"os"
	"go/ast"
	"go/token"
	"go/types"
	"sort"
	"strings"
)

type tool struct {
	l        *loader
	root     *Pkg
	walked   map[*types.Package]*Pkg // packages whose function bodies are analysed
	decls    map[*types.Func]*Func
	named    []*types.Named // named types of the walked packages
	lits     map[*ast.FuncLit]*Func
	litName  map[*ast.FuncLit]string
	funcFld  map[string][]*Func // func-typed field -> method values assigned to it
	entries  map[string]*Entry
	order    []string
	retCls   map[string]Class // fn key|role -> class of the first result
	fieldCls map[string]Class // untracked field|role -> class of the stored values
	changed  bool
	notes    map[string]bool
	handlers map[string]bool // keys of registered handler functions
	edges    map[string]map[string]bool // caller key|role -> callee keys
	muAlias  map[string]bool            // *sync.Mutex fields proved to point to Muxer.mutex
}

func (t *tool) note(format string, a ...interface{}) {
	t.notes[fmt.Sprintf(format, a...)] = true
}

func (t *tool) typeName(n *types.Named) string {
	o := n.Obj()
	if o.Pkg() == nil || o.Pkg() == t.root.Types {
		return o.Name()
	}
	return o.Pkg().Name() + "." + o.Name()
}

func deref(tp types.Type) types.Type {
	if p, ok := tp.Underlying().(*types.Pointer); ok {
		return p.Elem()
	}
	return tp
}

func namedOf(tp types.Type) *types.Named {
	if tp == nil {
		return nil
	}
	n, _ := deref(tp).(*types.Named)
	return n
}

// lifecycle reports whether values of the type designate life-cycle objects.
func (t *tool) lifecycle(tp types.Type) bool {
	n := namedOf(tp)
	if n == nil {
		// slices of life-cycle objects
		if s, ok := tp.Underlying().(*types.Slice); ok {
			return t.lifecycle(s.Elem())
		}
		return false
	}
	name := t.typeName(n)
	if lc, ok := trackedTypes[name]; ok {
		return lc
	}
	switch name {
	case "muxerSegment", "storage.File", "storage.Part":
		return true
	}
	if _, isIface := n.Underlying().(*types.Interface); isIface {
		return false
	}
	// other struct types of the walked packages (readers, writers): derived objects
	if _, ok := t.walked[n.Obj().Pkg()]; ok {
		return true
	}
	return false
}

func (t *tool) index() {
	t.decls = map[*types.Func]*Func{}
	t.lits = map[*ast.FuncLit]*Func{}
	t.litName = map[*ast.FuncLit]string{}
	t.funcFld = map[string][]*Func{}
	var pkgs []*Pkg
	for _, p := range t.walked {
		pkgs = append(pkgs, p)
	}
	sort.Slice(pkgs, func(i, j int) bool { return pkgs[i].Path < pkgs[j].Path })
	for _, p := range pkgs {
		names := p.Types.Scope().Names()
		for _, nm := range names {
			if tn, ok := p.Types.Scope().Lookup(nm).(*types.TypeName); ok {
				if n, ok := tn.Type().(*types.Named); ok {
					t.named = append(t.named, n)
				}
			}
		}
		for _, f := range p.Files {
			for _, d := range f.Decls {
				fd, ok := d.(*ast.FuncDecl)
				if !ok || fd.Body == nil {
					continue
				}
				obj := p.Info.Defs[fd.Name].(*types.Func)
				fn := &Func{pkg: p, decl: fd, obj: obj}
				sig := obj.Type().(*types.Signature)
				if sig.Recv() != nil {
					fn.recv = sig.Recv()
					rn := namedOf(sig.Recv().Type())
					if rn == nil {
						fatalf("%s: receiver of unnamed type", obj.FullName())
					}
					fn.short = t.typeName(rn) + "." + obj.Name()
				} else if p == t.root {
					fn.short = obj.Name()
				} else {
					fn.short = p.Types.Name() + "." + obj.Name()
				}
				for i := 0; i < sig.Params().Len(); i++ {
					fn.params = append(fn.params, sig.Params().At(i))
				}
				fn.key = fn.short
				t.decls[obj] = fn
				// closure names: parent.funcN, nested parent.funcN.M (the compiler's convention)
				t.nameLits(fd.Body, fn.short, true)
			}
		}
	}
	// checks of the annotation tables
	for name := range trackedTypes {
		if t.lookupNamed(name) == nil {
			fatalf("annotated type %s does not exist", name)
		}
	}
	for _, m := range []map[string]bool{openFields, listFields, ownFields, upFields, filePartsFields, externalFuncFields} {
		for f := range m {
			i := strings.LastIndex(f, ".")
			n := t.lookupNamed(f[:i])
			if n == nil || fieldOf(n, f[i+1:]) == nil {
				fatalf("annotated field %s does not exist", f)
			}
		}
	}
}

func (t *tool) nameLits(n ast.Node, parent string, top bool) {
	cnt := 0
	var visit func(n ast.Node) bool
	visit = func(n ast.Node) bool {
		if fl, ok := n.(*ast.FuncLit); ok {
			cnt++
			var name string
			if top {
				name = fmt.Sprintf("%s.func%d", parent, cnt)
			} else {
				name = fmt.Sprintf("%s.%d", parent, cnt)
			}
			t.litName[fl] = name
			t.nameLits(fl.Body, name, false)
			return false
		}
		return true
	}
	ast.Inspect(n, visit)
}

func (t *tool) lookupNamed(name string) *types.Named {
	for _, n := range t.named {
		if t.typeName(n) == name {
			return n
		}
	}
	return nil
}

func fieldOf(n *types.Named, name string) *types.Var {
	st, ok := n.Underlying().(*types.Struct)
	if !ok {
		return nil
	}
	for i := 0; i < st.NumFields(); i++ {
		if st.Field(i).Name() == name {
			return st.Field(i)
		}
	}
	return nil
}

// implementers of an interface method among the named types of the walked packages
func (t *tool) implementers(iface *types.Interface, method string) []*Func {
	var r []*Func
	for _, n := range t.named {
		if _, isIface := n.Underlying().(*types.Interface); isIface {
			continue
		}
		var recvT types.Type
		switch {
		case types.Implements(n, iface):
			recvT = n
		case types.Implements(types.NewPointer(n), iface):
			recvT = types.NewPointer(n)
		default:
			continue
		}
		obj, _, _ := types.LookupFieldOrMethod(recvT, true, n.Obj().Pkg(), method)
		f, ok := obj.(*types.Func)
		if !ok {
			continue
		}
		if fn, ok := t.decls[f]; ok {
			r = append(r, fn)
		}
	}
	return r
}

func (t *tool) closureFunc(p *Pkg, fl *ast.FuncLit) *Func {
	if fn, ok := t.lits[fl]; ok {
		return fn
	}
	name := t.litName[fl]
	if name == "" {
		fatalf("unnamed closure at %v", t.l.fset.Position(fl.Pos()))
	}
	fn := &Func{key: name, short: name, pkg: p, lit: fl}
	sig := p.Info.Types[fl].Type.(*types.Signature)
	for i := 0; i < sig.Params().Len(); i++ {
		fn.params = append(fn.params, sig.Params().At(i))
	}
	t.lits[fl] = fn
	return fn
}

// addEntry merges a calling context into the entry of (fn, role).
func (t *tool) addEntry(fn *Func, role string, held tokset, recv Class, args []Class, root bool) {
	k := fn.key + "|" + role
	if d := os.Getenv("LOCKSET_DEBUG"); d != "" && strings.Contains(k, d) {
		fmt.Fprintf(os.Stderr, "debug: entry %s held={%s} recv=%s args=%v\n", k, held.key(), recv, args)
	}
	e, ok := t.entries[k]
	if !ok {
		e = &Entry{fn: fn, role: role, held: held.copy(), recv: recv, args: append([]Class{}, args...), root: root, valid: true}
		for len(e.args) < len(fn.params) {
			e.args = append(e.args, Bot)
		}
		t.entries[k] = e
		t.order = append(t.order, k)
		t.changed = true
		return
	}
	nh := inter(e.held, held)
	if nh.key() != e.held.key() {
		e.held = nh
		t.changed = true
	}
	if j := join(e.recv, recv); j != e.recv {
		e.recv = j
		t.changed = true
	}
	for i := range e.args {
		if i < len(args) {
			if j := join(e.args[i], args[i]); j != e.args[i] {
				e.args[i] = j
				t.changed = true
			}
		}
	}
	if root && !e.root {
		e.root = true
	}
}

func (t *tool) pos(p token.Pos) string {
	f, l := t.l.relFile(p)
	return fmt.Sprintf("%s:%d", f, l)
}

// run computes the fixpoint and returns the rows of the final pass.
func (t *tool) run() []Row {
	for iter := 0; ; iter++ {
		if iter > 60 {
			fatalf("fixpoint does not converge")
		}
		t.changed = false
		for i := 0; i < len(t.order); i++ {
			e := t.entries[t.order[i]]
			a := newAnalysis(t, e)
			a.run()
		}
		if !t.changed {
			break
		}
	}
	var rows []Row
	for _, k := range t.order {
		e := t.entries[k]
		a := newAnalysis(t, e)
		a.final = true
		a.run()
		rows = append(rows, a.rows...)
	}
	return rows
}
