// Intra-procedural walk: lock state, guard facts, object classes, rows, call edges.
package main

import (
	"go/ast"
	"go/token"
	"go/types"
	"strings"
)

type breakable struct {
	loop      bool
	breaks    []*State
	continues []*State
}

type frame struct {
	exits  []*State
	defers []string // lock tokens released at exit
	brk    []*breakable
	outer  bool
}

type analysis struct {
	t      *tool
	e      *Entry
	fn     *Func
	info   *types.Info
	final  bool
	dry    int
	rows   []Row
	frames []*frame
	conds  []string
	ret    Class
}

func newAnalysis(t *tool, e *Entry) *analysis {
	return &analysis{t: t, e: e, fn: e.fn, info: e.fn.pkg.Info}
}

func (a *analysis) fatal(n ast.Node, format string, args ...interface{}) {
	fatalf("%s (%s, role %s): "+format, append([]interface{}{a.t.pos(n.Pos()), a.fn.short, a.e.role}, args...)...)
}

func (a *analysis) src(n ast.Node) string {
	return nodeString(a.t.l.fset, n)
}

func (a *analysis) run() {
	st := &State{held: a.e.held.copy(), cls: map[*types.Var]Class{}}
	if a.fn.recv != nil {
		st.cls[a.fn.recv] = a.e.recv
	}
	for i, p := range a.fn.params {
		if i < len(a.e.args) {
			st.cls[p] = a.e.args[i]
		}
	}
	// named receiver/params are distinct objects in Defs: map by name through the declaration
	if a.fn.decl != nil {
		a.bindDeclVars(st)
	} else {
		a.bindLitVars(st)
	}
	fr := &frame{outer: true}
	a.frames = append(a.frames, fr)
	a.walkBlock(a.fn.body(), st)
	if !st.dead {
		a.doReturn(st)
	}
	exit := meetStates(fr.exits)
	// lock balance
	entryLocks := a.e.held.locks()
	for _, x := range fr.exits {
		if x.held.locks() != entryLocks {
			msg := a.fn.short + ": an exit path leaves with locks {" + x.held.locks() + "} but was entered with {" + entryLocks + "}"
			if a.e.root {
				a.t.note("%s", msg)
			} else {
				fatalf("%s - unbalanced non-root function", msg)
			}
		}
	}
	_ = exit
	k := a.fn.key + "|" + a.e.role
	if j := join(a.t.retCls[k], a.ret); j != a.t.retCls[k] {
		a.t.retCls[k] = j
		a.t.changed = true
	}
}

func (a *analysis) bindDeclVars(st *State) {
	d := a.fn.decl
	if d.Recv != nil && len(d.Recv.List) == 1 && len(d.Recv.List[0].Names) == 1 {
		if v, ok := a.info.Defs[d.Recv.List[0].Names[0]].(*types.Var); ok {
			st.cls[v] = a.e.recv
		}
	}
	i := 0
	for _, f := range d.Type.Params.List {
		if len(f.Names) == 0 {
			i++
			continue
		}
		for _, nm := range f.Names {
			if v, ok := a.info.Defs[nm].(*types.Var); ok && i < len(a.e.args) {
				st.cls[v] = a.e.args[i]
			}
			i++
		}
	}
}

func (a *analysis) bindLitVars(st *State) {
	i := 0
	for _, f := range a.fn.lit.Type.Params.List {
		for _, nm := range f.Names {
			if v, ok := a.info.Defs[nm].(*types.Var); ok && i < len(a.e.args) {
				st.cls[v] = a.e.args[i]
			}
			i++
		}
	}
}

func (a *analysis) frame() *frame { return a.frames[len(a.frames)-1] }

func (a *analysis) doReturn(st *State) {
	x := st.copy()
	fr := a.frame()
	for _, tok := range fr.defers {
		if !x.held[tok] {
			fatalf("%s: deferred unlock of %s which is not held", a.fn.short, tok)
		}
		delete(x.held, tok)
	}
	fr.exits = append(fr.exits, x)
	st.dead = true
}

// ---------------------------------------------------------------- statements

func (a *analysis) walkBlock(b *ast.BlockStmt, st *State) {
	for _, s := range b.List {
		if st.dead {
			return
		}
		a.walkStmt(s, st)
	}
}

func (a *analysis) replace(st, n *State) {
	st.held, st.cls, st.dead = n.held, n.cls, n.dead
}

func (a *analysis) walkStmt(s ast.Stmt, st *State) {
	switch s := s.(type) {
	case *ast.BlockStmt:
		a.walkBlock(s, st)
	case *ast.EmptyStmt:
	case *ast.ExprStmt:
		a.walkExpr(s.X, st, false)
	case *ast.AssignStmt:
		a.walkAssign(s, st)
	case *ast.IncDecStmt:
		a.walkExpr(s.X, st, false)
		a.walkExpr(s.X, st, true)
	case *ast.DeclStmt:
		gd, ok := s.Decl.(*ast.GenDecl)
		if !ok {
			a.fatal(s, "unsupported declaration")
		}
		for _, sp := range gd.Specs {
			vs, ok := sp.(*ast.ValueSpec)
			if !ok {
				continue // type / const declarations
			}
			for _, v := range vs.Values {
				a.walkExpr(v, st, false)
			}
			if len(vs.Values) == len(vs.Names) {
				for i, nm := range vs.Names {
					a.setVar(nm, a.classOf(vs.Values[i], st), st)
				}
			}
		}
	case *ast.ReturnStmt:
		for i, r := range s.Results {
			a.walkExpr(r, st, false)
			if i == 0 && a.frame().outer {
				a.ret = join(a.ret, a.classOf(r, st))
			}
		}
		a.doReturn(st)
	case *ast.DeferStmt:
		if tok, op := a.lockOp(s.Call); tok != "" {
			if op != "unlock" {
				a.fatal(s, "deferred lock acquisition")
			}
			if !st.held[tok] {
				a.fatal(s, "deferred unlock of %s which is not held", tok)
			}
			a.frame().defers = append(a.frame().defers, tok)
			return
		}
		if _, isLit := s.Call.Fun.(*ast.FuncLit); isLit {
			a.fatal(s, "deferred closure is not supported")
		}
		// any other deferred call: analysed at the defer point (documented approximation)
		a.walkExpr(s.Call, st, false)
	case *ast.IfStmt:
		if s.Init != nil {
			a.walkStmt(s.Init, st)
		}
		facts := a.walkCond(s.Cond, st)
		thenSt := st.copy()
		for _, f := range facts {
			thenSt.held[f] = true
		}
		a.conds = append(a.conds, a.src(s.Cond))
		a.walkBlock(s.Body, thenSt)
		a.conds = a.conds[:len(a.conds)-1]
		elseSt := st.copy()
		if s.Else != nil {
			a.walkStmt(s.Else, elseSt)
		}
		// guard facts do not survive the merge unless both branches have them
		m := meetStates([]*State{thenSt, elseSt})
		a.replace(st, m)
	case *ast.ForStmt:
		if s.Init != nil {
			a.walkStmt(s.Init, st)
		}
		a.walkLoop(st, s.Cond != nil, func(b *State) {
			if s.Cond != nil {
				a.walkExpr(s.Cond, b, false)
			}
			a.walkBlock(s.Body, b)
			if s.Post != nil && !b.dead {
				a.walkStmt(s.Post, b)
			}
		}, s)
	case *ast.RangeStmt:
		a.walkExpr(s.X, st, false)
		c := a.classOf(s.X, st)
		a.walkLoop(st, true, func(b *State) {
			if id, ok := s.Value.(*ast.Ident); ok {
				a.setVar(id, c, b)
			} else if s.Value != nil {
				a.fatal(s, "range value is not an identifier")
			}
			a.walkBlock(s.Body, b)
		}, s)
	case *ast.SwitchStmt:
		if s.Init != nil {
			a.walkStmt(s.Init, st)
		}
		if s.Tag != nil {
			a.walkExpr(s.Tag, st, false)
		}
		a.walkClauses(s.Body, st, nil, Bot)
	case *ast.TypeSwitchStmt:
		if s.Init != nil {
			a.walkStmt(s.Init, st)
		}
		var x ast.Expr
		switch as := s.Assign.(type) {
		case *ast.AssignStmt:
			x = as.Rhs[0].(*ast.TypeAssertExpr).X
		case *ast.ExprStmt:
			x = as.X.(*ast.TypeAssertExpr).X
		}
		a.walkExpr(x, st, false)
		a.walkClauses(s.Body, st, s, a.classOf(x, st))
	case *ast.BranchStmt:
		if s.Label != nil || s.Tok == token.GOTO || s.Tok == token.FALLTHROUGH {
			a.fatal(s, "labels / goto / fallthrough are not supported")
		}
		fr := a.frame()
		if s.Tok == token.BREAK {
			if len(fr.brk) == 0 {
				a.fatal(s, "break outside a breakable statement")
			}
			b := fr.brk[len(fr.brk)-1]
			b.breaks = append(b.breaks, st.copy())
		} else {
			var lp *breakable
			for i := len(fr.brk) - 1; i >= 0; i-- {
				if fr.brk[i].loop {
					lp = fr.brk[i]
					break
				}
			}
			if lp == nil {
				a.fatal(s, "continue outside a loop")
			}
			lp.continues = append(lp.continues, st.copy())
		}
		st.dead = true
	default:
		a.fatal(s, "unsupported statement %T (go / select / send / labeled statements are not understood)", s)
	}
}

func (a *analysis) walkClauses(body *ast.BlockStmt, st *State, ts *ast.TypeSwitchStmt, c Class) {
	fr := a.frame()
	bk := &breakable{}
	fr.brk = append(fr.brk, bk)
	var ends []*State
	hasDefault := false
	for _, cl := range body.List {
		cc := cl.(*ast.CaseClause)
		cs := st.copy()
		if cc.List == nil {
			hasDefault = true
		}
		if ts == nil {
			for _, x := range cc.List {
				a.walkExpr(x, cs, false)
			}
		} else if v, ok := a.info.Implicits[cc].(*types.Var); ok {
			cs.cls[v] = c
		}
		for _, s := range cc.Body {
			if cs.dead {
				break
			}
			a.walkStmt(s, cs)
		}
		ends = append(ends, cs)
	}
	fr.brk = fr.brk[:len(fr.brk)-1]
	ends = append(ends, bk.breaks...)
	if !hasDefault {
		ends = append(ends, st.copy())
	}
	a.replace(st, meetStates(ends))
}

// walkLoop analyses a loop body; mayskip = the body may execute zero times / the loop may end
// because its condition is false.
func (a *analysis) walkLoop(st *State, mayskip bool, body func(b *State), n ast.Node) {
	fr := a.frame()
	entry := st.copy()
	// find a stable entry state for the object classes (dry passes record nothing)
	for i := 0; ; i++ {
		if i > 8 {
			a.fatal(n, "loop classes do not stabilise")
		}
		a.dry++
		bk := &breakable{loop: true}
		fr.brk = append(fr.brk, bk)
		b := entry.copy()
		body(b)
		fr.brk = fr.brk[:len(fr.brk)-1]
		a.dry--
		next := meetStates(append([]*State{entry, b}, bk.continues...))
		next.held = entry.held // lock balance is checked below
		if sameCls(next, entry) {
			break
		}
		entry = next
	}
	bk := &breakable{loop: true}
	fr.brk = append(fr.brk, bk)
	b := entry.copy()
	body(b)
	fr.brk = fr.brk[:len(fr.brk)-1]
	for _, x := range append([]*State{b}, bk.continues...) {
		if !x.dead && x.held.locks() != entry.held.locks() {
			a.fatal(n, "lock state changes across a loop iteration: {%s} -> {%s}", entry.held.locks(), x.held.locks())
		}
	}
	exits := append([]*State{}, bk.breaks...)
	if mayskip {
		exits = append(exits, entry)
		if !b.dead {
			exits = append(exits, b)
		}
	}
	a.replace(st, meetStates(exits))
}

// walkCond walks a condition and returns the guard facts known when it is true.
func (a *analysis) walkCond(c ast.Expr, st *State) []string {
	switch c := c.(type) {
	case *ast.ParenExpr:
		return a.walkCond(c.X, st)
	case *ast.BinaryExpr:
		if c.Op == token.LAND {
			f1 := a.walkCond(c.X, st)
			var added []string
			for _, f := range f1 {
				if !st.held[f] {
					st.held[f] = true
					added = append(added, f)
				}
			}
			f2 := a.walkCond(c.Y, st)
			for _, f := range added {
				delete(st.held, f)
			}
			return append(f1, f2...)
		}
	case *ast.CallExpr:
		a.walkExpr(c, st, false)
		for _, fn := range a.resolve(c) {
			if fn.short == "muxerStream.hasContent" {
				return []string{"@content"}
			}
		}
		return nil
	}
	a.walkExpr(c, st, false)
	return nil
}

func (a *analysis) setVar(id *ast.Ident, c Class, st *State) {
	if id.Name == "_" {
		return
	}
	var v *types.Var
	if o, ok := a.info.Defs[id].(*types.Var); ok {
		v = o
	} else if o, ok := a.info.Uses[id].(*types.Var); ok {
		v = o
	}
	if v == nil || v.IsField() {
		return
	}
	st.cls[v] = c
}

// escape: a Fresh variable used as a value is no longer thread-local knowledge
func (a *analysis) escape(e ast.Expr, st *State) {
	if id, ok := e.(*ast.Ident); ok {
		if v, ok := a.info.Uses[id].(*types.Var); ok && st.cls[v] == Fresh {
			st.cls[v] = Open
		}
	}
}

func (a *analysis) walkAssign(s *ast.AssignStmt, st *State) {
	for _, r := range s.Rhs {
		if rs, ok := r.(*ast.SelectorExpr); ok {
			if sel, ok := a.info.Selections[rs]; ok && sel.Kind() == types.MethodVal {
				// X.f = Y.method: the targets were collected by collectFuncFields
				a.walkExpr(rs.X, st, false)
				continue
			}
		}
		a.walkExpr(r, st, false)
	}
	for _, l := range s.Lhs {
		if s.Tok != token.ASSIGN && s.Tok != token.DEFINE {
			a.walkExpr(l, st, false) // op-assign reads too
		}
		if id, ok := l.(*ast.Ident); ok && (s.Tok == token.DEFINE || id.Name == "_") {
			_ = id
			continue
		}
		a.walkExpr(l, st, true)
	}
	// classes
	if len(s.Lhs) == len(s.Rhs) {
		// evaluate all right-hand sides first (parallel assignment)
		cs := make([]Class, len(s.Rhs))
		for i, r := range s.Rhs {
			cs[i] = a.classOf(r, st)
		}
		for i, l := range s.Lhs {
			a.assignTo(l, s.Rhs[i], cs[i], st, s)
		}
	} else if len(s.Rhs) == 1 {
		c := a.classOf(s.Rhs[0], st)
		a.assignTo(s.Lhs[0], s.Rhs[0], c, st, s)
	}
}

func (a *analysis) assignTo(l ast.Expr, r ast.Expr, c Class, st *State, s *ast.AssignStmt) {
	switch l := l.(type) {
	case *ast.Ident:
		if rid, ok := r.(*ast.Ident); ok && c == Fresh {
			// alias of a fresh object: give up thread-locality for both
			a.escape(rid, st)
			c = Open
		}
		a.setVar(l, c, st)
	case *ast.SelectorExpr:
		fk, tracked := a.fieldKey(l)
		if fk == "" {
			return
		}
		switch {
		case listFields[fk]:
			a.listUpdate(l, r, st, s)
		case openFields[fk]:
			if c != Bot && c != Fresh && c != Open {
				a.fatal(s, "%s is assigned an object of class %s (expected a new or open object, or nil)", fk, c)
			}
			a.escape(r, st)
		case !tracked:
			a.storeFieldCls(fk, c)
			a.escape(r, st)
		default:
			a.escape(r, st)
		}
	default:
		a.escape(r, st)
	}
}

// listUpdate handles X.list = append(X.list, v) (publication of v) and X.list = X.list[1:].
func (a *analysis) listUpdate(l *ast.SelectorExpr, r ast.Expr, st *State, s ast.Node) {
	if a.e.role == "init" {
		return
	}
	switch r := r.(type) {
	case *ast.SliceExpr:
		if a.src(r.X) == a.src(l) {
			return
		}
	case *ast.CallExpr:
		if id, ok := r.Fun.(*ast.Ident); ok && id.Name == "append" && len(r.Args) >= 2 && a.src(r.Args[0]) == a.src(l) {
			for _, v := range r.Args[1:] {
				c := a.classOf(v, st)
				if c != Fresh && c != Open {
					a.fatal(s, "object of class %s appended to %s (expected a new or open object)", c, a.src(l))
				}
				switch v := v.(type) {
				case *ast.Ident:
					a.setVar(v, PubHere, st)
				case *ast.UnaryExpr, *ast.CompositeLit:
				default:
					a.fatal(s, "published object %s is neither a variable nor a literal", a.src(v))
				}
			}
			if fk, _ := a.fieldKey(l); fk == "muxerStream.segments" {
				// a segment is published: back pointers of parts published earlier in this
				// activation may now designate a listed segment
				for v, c := range st.cls {
					if c == PubHere {
						st.cls[v] = Listed
					}
				}
			}
			if !st.held["mu"] {
				a.fatal(s, "%s is extended without the muxer mutex", a.src(l))
			}
			return
		}
	}
	a.fatal(s, "update of the published list %s is not understood", a.src(l))
}

func (a *analysis) storeFieldCls(fk string, c Class) {
	if a.dry > 0 {
		return
	}
	k := fk + "|" + a.e.role
	if j := join(a.t.fieldCls[k], c); j != a.t.fieldCls[k] {
		a.t.fieldCls[k] = j
		a.t.changed = true
	}
}

// fieldKey returns "Type.field" of a field selection and whether Type is tracked.
func (a *analysis) fieldKey(sel *ast.SelectorExpr) (string, bool) {
	s, ok := a.info.Selections[sel]
	if !ok || s.Kind() != types.FieldVal {
		return "", false
	}
	owner := a.ownerOf(s)
	if owner == nil {
		return "", false
	}
	name := a.t.typeName(owner)
	_, tracked := trackedTypes[name]
	return name + "." + s.Obj().Name(), tracked
}

// ownerOf returns the named struct type that declares the selected field.
func (a *analysis) ownerOf(s *types.Selection) *types.Named {
	tp := s.Recv()
	idx := s.Index()
	var owner *types.Named
	for _, i := range idx {
		n := namedOf(tp)
		st, ok := deref(tp).Underlying().(*types.Struct)
		if !ok {
			return nil
		}
		owner = n
		tp = st.Field(i).Type()
	}
	return owner
}

func isSyncValue(tp types.Type) bool {
	n, ok := tp.(*types.Named)
	if !ok || n.Obj().Pkg() == nil || n.Obj().Pkg().Path() != "sync" {
		return false
	}
	return true
}

func (a *analysis) addRow(pos token.Pos, field string, write bool, c Class, st *State) {
	if !a.final || a.dry > 0 {
		return
	}
	f, l := a.t.l.relFile(pos)
	a.rows = append(a.rows, Row{File: f, Line: l, Fn: a.fn.short, Field: field, Write: write, Role: a.e.role,
		Held: st.held.sorted(), Class: c})
}

// recordSelection records the rows of a field selection (including promoted-field hops).
func (a *analysis) recordSelection(sel *ast.SelectorExpr, st *State, write bool) {
	s := a.info.Selections[sel]
	base := a.classOf(sel.X, st)
	tp := s.Recv()
	idx := s.Index()
	for hop, i := range idx {
		n := namedOf(tp)
		stt, ok := deref(tp).Underlying().(*types.Struct)
		if !ok {
			return
		}
		fld := stt.Field(i)
		last := hop == len(idx)-1
		if n != nil {
			name := a.t.typeName(n)
			if lc, tracked := trackedTypes[name]; tracked && !isSyncValue(fld.Type()) {
				c := base
				if !lc || hop > 0 {
					c = Shared
				}
				a.addRow(sel.Sel.Pos(), name+"."+fld.Name(), write && last, c, st)
			}
		}
		tp = fld.Type()
	}
}

func nodeString(fset *token.FileSet, n ast.Node) string {
	var sb strings.Builder
	writeNode(&sb, fset, n)
	return sb.String()
}
