module locksettool

go 1.21
