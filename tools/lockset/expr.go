// Expressions: field rows, object classes, lock operations, calls.
package main

import (
	"fmt"
	"os"
	"go/ast"
	"go/printer"
	"go/token"
	"go/types"
	"strings"
)

func writeNode(sb *strings.Builder, fset *token.FileSet, n ast.Node) {
	printer.Fprint(sb, fset, n)
}

// ---------------------------------------------------------------- classes

func (a *analysis) captured(v *types.Var) bool {
	if a.fn.lit == nil || v.IsField() || v.Pkg() == nil {
		return false
	}
	if v.Parent() == v.Pkg().Scope() {
		return false
	}
	return v.Pos() < a.fn.lit.Pos() || v.Pos() > a.fn.lit.End()
}

func (a *analysis) classOf(e ast.Expr, st *State) Class {
	switch e := e.(type) {
	case *ast.Ident:
		if e.Name == "nil" {
			return Bot
		}
		var v *types.Var
		if o, ok := a.info.Uses[e].(*types.Var); ok {
			v = o
		} else if o, ok := a.info.Defs[e].(*types.Var); ok {
			v = o
		}
		if v == nil {
			return Bot
		}
		if c, ok := st.cls[v]; ok {
			return c
		}
		if a.captured(v) {
			// a handler closure runs only after it was registered: what it captured is published
			if a.t.lifecycle(v.Type()) {
				return Listed
			}
			return Shared
		}
		if !a.t.lifecycle(v.Type()) {
			return Shared
		}
		return Any
	case *ast.ParenExpr:
		return a.classOf(e.X, st)
	case *ast.StarExpr:
		return a.classOf(e.X, st)
	case *ast.UnaryExpr:
		return a.classOf(e.X, st)
	case *ast.TypeAssertExpr:
		return a.classOf(e.X, st)
	case *ast.IndexExpr:
		return a.classOf(e.X, st)
	case *ast.SliceExpr:
		return a.classOf(e.X, st)
	case *ast.CompositeLit:
		return Fresh
	case *ast.BasicLit, *ast.FuncLit:
		return Bot
	case *ast.SelectorExpr:
		s, ok := a.info.Selections[e]
		if !ok {
			return Shared // qualified identifier
		}
		if s.Kind() != types.FieldVal {
			return Bot
		}
		fk, tracked := a.fieldKey(e)
		base := a.classOf(e.X, st)
		switch {
		case openFields[fk]:
			return Open
		case listFields[fk]:
			return Listed
		case ownFields[fk]:
			return own(base)
		case upFields[fk]:
			return up(base)
		case filePartsFields[fk]:
			return fileParts(base)
		case tracked:
			if a.t.lifecycle(s.Type()) {
				return Any
			}
			return Shared
		case fk != "":
			if c, ok := a.t.fieldCls[fk+"|"+a.e.role]; ok {
				return c
			}
			return base
		}
		return base
	case *ast.CallExpr:
		if tv, ok := a.info.Types[e.Fun]; ok && tv.IsType() && len(e.Args) == 1 {
			return a.classOf(e.Args[0], st)
		}
		if id, ok := e.Fun.(*ast.Ident); ok {
			if _, isB := a.info.Uses[id].(*types.Builtin); isB {
				c := Bot
				for _, x := range e.Args {
					c = join(c, a.classOf(x, st))
				}
				return c
			}
		}
		fns := a.resolve(e)
		if len(fns) > 0 {
			c := Bot
			for _, fn := range fns {
				c = join(c, a.t.retCls[fn.key+"|"+a.e.role])
			}
			return c
		}
		// external call: derived from receiver and arguments
		c := Bot
		if sel, ok := e.Fun.(*ast.SelectorExpr); ok {
			if _, isSel := a.info.Selections[sel]; isSel {
				c = a.classOf(sel.X, st)
			}
		}
		for _, x := range e.Args {
			if tv, ok := a.info.Types[x]; ok && a.t.lifecycle(tv.Type) {
				c = join(c, a.classOf(x, st))
			}
		}
		return c
	}
	return Bot
}

// ---------------------------------------------------------------- lock operations

// lockOp recognises X.mutex.{Lock,Unlock,RLock,RUnlock}() and returns (token, "lock"|"unlock").
func (a *analysis) lockOp(c *ast.CallExpr) (string, string) {
	sel, ok := c.Fun.(*ast.SelectorExpr)
	if !ok {
		return "", ""
	}
	s, ok := a.info.Selections[sel]
	if !ok || s.Kind() != types.MethodVal {
		return "", ""
	}
	rn := namedOf(s.Recv())
	if rn == nil || rn.Obj().Pkg() == nil || rn.Obj().Pkg().Path() != "sync" {
		return "", ""
	}
	if rn.Obj().Name() != "Mutex" && rn.Obj().Name() != "RWMutex" {
		return "", ""
	}
	fsel, ok := sel.X.(*ast.SelectorExpr)
	if !ok {
		a.fatal(c, "mutex operation on something that is not a struct field: %s", a.src(c))
	}
	fk, _ := a.fieldKey(fsel)
	var m string
	switch {
	case fk == "Muxer.mutex" || a.t.muAlias[fk]:
		m = "mu"
	case fk == "muxerServer.mutex":
		m = "srv"
	default:
		a.fatal(c, "unknown mutex %s (not the muxer mutex, not an alias of it, not the server mutex)", fk)
	}
	switch sel.Sel.Name {
	case "Lock":
		if m == "srv" {
			return "srv:W", "lock"
		}
		return m, "lock"
	case "Unlock":
		if m == "srv" {
			return "srv:W", "unlock"
		}
		return m, "unlock"
	case "RLock":
		if m != "srv" {
			a.fatal(c, "RLock on a plain mutex")
		}
		return "srv:R", "lock"
	case "RUnlock":
		if m != "srv" {
			a.fatal(c, "RUnlock on a plain mutex")
		}
		return "srv:R", "unlock"
	}
	a.fatal(c, "unsupported mutex method %s", sel.Sel.Name)
	return "", ""
}

// ---------------------------------------------------------------- call resolution

// resolve returns the analysed functions a call may reach (empty = leaves the analysed code).
func (a *analysis) resolve(c *ast.CallExpr) []*Func {
	switch f := c.Fun.(type) {
	case *ast.ParenExpr:
		return nil
	case *ast.Ident:
		if fo, ok := a.info.Uses[f].(*types.Func); ok {
			if fn, ok := a.t.decls[fo]; ok {
				return []*Func{fn}
			}
		}
		return nil
	case *ast.SelectorExpr:
		s, ok := a.info.Selections[f]
		if !ok {
			// pkg.Func
			if fo, ok := a.info.Uses[f.Sel].(*types.Func); ok {
				if fn, ok := a.t.decls[fo]; ok {
					return []*Func{fn}
				}
			}
			return nil
		}
		switch s.Kind() {
		case types.MethodVal:
			fo := s.Obj().(*types.Func)
			if iface, ok := s.Recv().Underlying().(*types.Interface); ok {
				return a.t.implementers(iface, fo.Name())
			}
			if fn, ok := a.t.decls[fo]; ok {
				return []*Func{fn}
			}
			return nil
		case types.FieldVal:
			fk, _ := a.fieldKey(f)
			return a.t.funcFld[fk]
		}
	}
	return nil
}

// ---------------------------------------------------------------- expressions

func (a *analysis) walkExpr(e ast.Expr, st *State, write bool) {
	switch e := e.(type) {
	case nil:
	case *ast.Ident, *ast.BasicLit:
	case *ast.ParenExpr:
		a.walkExpr(e.X, st, write)
	case *ast.StarExpr:
		a.walkExpr(e.X, st, false)
	case *ast.UnaryExpr:
		if e.Op == token.AND {
			if sel, ok := e.X.(*ast.SelectorExpr); ok {
				if s, ok := a.info.Selections[sel]; ok && s.Kind() == types.FieldVal {
					if isSyncValue(s.Type()) {
						a.walkExpr(sel.X, st, false)
						return
					}
					// the address of a field escapes: whoever holds it may write the field
					a.walkExpr(e.X, st, true)
					return
				}
			}
			if e.Op == token.ARROW {
				a.fatal(e, "channel receive is not understood")
			}
		}
		if e.Op == token.ARROW {
			a.fatal(e, "channel receive is not understood")
		}
		a.walkExpr(e.X, st, false)
	case *ast.BinaryExpr:
		if e.Op == token.LAND {
			a.walkCond(e, st)
			return
		}
		a.walkExpr(e.X, st, false)
		a.walkExpr(e.Y, st, false)
	case *ast.KeyValueExpr:
		a.walkExpr(e.Key, st, false)
		a.walkExpr(e.Value, st, false)
	case *ast.CompositeLit:
		a.walkComposite(e, st)
	case *ast.FuncLit:
		// a function value that is neither called on the spot nor registered as a handler
		bad := ""
		ast.Inspect(e.Body, func(n ast.Node) bool {
			if sel, ok := n.(*ast.SelectorExpr); ok {
				if fk, tracked := a.fieldKey(sel); tracked {
					bad = fk
				}
			}
			return true
		})
		if bad != "" {
			a.fatal(e, "function literal touching %s is stored, not called: not understood", bad)
		}
	case *ast.SelectorExpr:
		s, ok := a.info.Selections[e]
		if !ok {
			return // qualified identifier
		}
		switch s.Kind() {
		case types.FieldVal:
			a.recordSelection(e, st, write)
			a.walkExpr(e.X, st, false)
		case types.MethodVal:
			a.fatal(e, "method value %s used as a value in an unknown context", a.src(e))
		default:
			a.fatal(e, "method expression not understood")
		}
	case *ast.IndexExpr:
		a.walkExpr(e.X, st, write)
		a.walkExpr(e.Index, st, false)
	case *ast.SliceExpr:
		a.walkExpr(e.X, st, false)
		a.walkExpr(e.Low, st, false)
		a.walkExpr(e.High, st, false)
		a.walkExpr(e.Max, st, false)
	case *ast.TypeAssertExpr:
		a.walkExpr(e.X, st, false)
	case *ast.CallExpr:
		a.walkCall(e, st)
	case *ast.ArrayType, *ast.MapType, *ast.FuncType, *ast.InterfaceType, *ast.StructType, *ast.ChanType:
	default:
		a.fatal(e, "unsupported expression %T", e)
	}
}

func (a *analysis) walkComposite(e *ast.CompositeLit, st *State) {
	tv := a.info.Types[e]
	n := namedOf(tv.Type)
	_, isStruct := deref(tv.Type).Underlying().(*types.Struct)
	name := ""
	tracked := false
	if n != nil && isStruct {
		name = a.t.typeName(n)
		_, tracked = trackedTypes[name]
	}
	for _, el := range e.Elts {
		kv, ok := el.(*ast.KeyValueExpr)
		if !ok || !isStruct {
			if ok {
				a.walkExpr(kv.Key, st, false)
				a.walkExpr(kv.Value, st, false)
				a.escape(kv.Value, st)
			} else {
				a.walkExpr(el, st, false)
				a.escape(el, st)
			}
			continue
		}
		a.walkExpr(kv.Value, st, false)
		fname := kv.Key.(*ast.Ident).Name
		if name != "" {
			if tracked {
				fld := fieldOf(n, fname)
				if fld != nil && !isSyncValue(fld.Type()) {
					c := Fresh
					if !trackedTypes[name] {
						c = Shared
					}
					a.addRow(kv.Key.Pos(), name+"."+fname, true, c, st)
				}
			} else if _, ok := a.t.walked[n.Obj().Pkg()]; ok {
				a.storeFieldCls(name+"."+fname, a.classOf(kv.Value, st))
			}
		}
		a.escape(kv.Value, st)
	}
}

func (a *analysis) walkArgs(args []ast.Expr, st *State) {
	for _, x := range args {
		a.walkExpr(x, st, false)
		a.escape(x, st)
	}
}

func (a *analysis) walkCall(c *ast.CallExpr, st *State) {
	// conversion
	if tv, ok := a.info.Types[c.Fun]; ok && tv.IsType() {
		a.walkArgs(c.Args, st)
		return
	}
	// lock operations
	if tok, op := a.lockOp(c); tok != "" {
		base := strings.SplitN(tok, ":", 2)[0]
		if op == "lock" {
			for h := range st.held {
				if strings.SplitN(h, ":", 2)[0] == base {
					a.fatal(c, "%s acquired while %s is held (self-deadlock)", tok, h)
				}
			}
			st.held[tok] = true
		} else {
			if !st.held[tok] {
				a.fatal(c, "%s released but not held on this path (held: %s)", tok, st.held.key())
			}
			delete(st.held, tok)
		}
		// reading a pointer-typed mutex field is a read of that field
		sel := c.Fun.(*ast.SelectorExpr)
		a.walkExpr(sel.X, st, false)
		return
	}
	switch f := c.Fun.(type) {
	case *ast.FuncLit:
		// called on the spot: analysed inline, with its own return/defer frame
		a.walkArgs(c.Args, st)
		fr := &frame{}
		a.frames = append(a.frames, fr)
		b := st.copy()
		a.walkBlock(f.Body, b)
		if !b.dead {
			a.doReturn(b)
		}
		a.frames = a.frames[:len(a.frames)-1]
		a.replace(st, meetStates(fr.exits))
		return
	case *ast.Ident:
		if b, ok := a.info.Uses[f].(*types.Builtin); ok {
			a.walkBuiltin(b.Name(), c, st)
			return
		}
		if v, ok := a.info.Uses[f].(*types.Var); ok {
			// call of a local function value: only handler values looked up in the path table
			if tn := namedOf(v.Type()); tn != nil && tn.Obj().Name() == "HandlerFunc" {
				a.walkArgs(c.Args, st)
				a.t.note("%s calls a looked-up handler with locks {%s}", a.fn.short, st.held.locks())
				if st.held.locks() != "" {
					a.fatal(c, "a handler is called with locks held")
				}
				return
			}
			a.fatal(c, "call of function value %s not understood", f.Name)
		}
	case *ast.SelectorExpr:
		if s, ok := a.info.Selections[f]; ok {
			switch s.Kind() {
			case types.FieldVal:
				fk, _ := a.fieldKey(f)
				a.walkExpr(f, st, false)
				if externalFuncFields[fk] {
					a.walkArgs(c.Args, st)
					return
				}
				if len(a.t.funcFld[fk]) == 0 {
					a.fatal(c, "call through function field %s with no known target", fk)
				}
			case types.MethodVal:
				if a.syncCondOp(f, s, c, st) {
					return
				}
			}
		}
	}
	fns := a.resolve(c)
	// receiver and arguments
	recv := Bot
	if sel, ok := c.Fun.(*ast.SelectorExpr); ok {
		if s, ok := a.info.Selections[sel]; ok && s.Kind() == types.MethodVal {
			recv = a.classOf(sel.X, st)
			if len(fns) == 0 {
				// external method: a mutating method on a struct-valued field writes the field
				w := false
				if fs, ok := sel.X.(*ast.SelectorExpr); ok {
					if ss, ok := a.info.Selections[fs]; ok && ss.Kind() == types.FieldVal {
						if _, isPtr := ss.Type().Underlying().(*types.Pointer); !isPtr && mutatingMethods[sel.Sel.Name] {
							w = true
						}
					}
				}
				a.walkExpr(sel.X, st, w)
			} else {
				a.walkExpr(sel.X, st, false)
			}
		}
	}
	if len(fns) == 0 {
		a.walkArgs(c.Args, st)
		a.externalCallbacks(c, st)
		return
	}
	var argCls []Class
	for _, x := range c.Args {
		argCls = append(argCls, a.classOf(x, st))
	}
	for _, fn := range fns {
		if fn.short == "muxerServer.registerPath" {
			a.registerHandler(c, st)
		}
		held := st.held.copy()
		if fn.short == "Muxer.createFirstSegment" {
			ok := false
			for _, cd := range a.conds {
				if strings.HasSuffix(strings.TrimSpace(cd), ".nextSegment == nil") {
					ok = true
				}
			}
			if !ok {
				a.fatal(c, "createFirstSegment is called outside `if <stream>.nextSegment == nil`")
			}
			held["@first"] = true
		}
		if d := os.Getenv("LOCKSET_DEBUG"); d != "" && strings.Contains(fn.key, d) {
			fmt.Fprintf(os.Stderr, "debug: call at %s from %s recv=%s\n", a.t.pos(c.Pos()), a.fn.short, recv)
		}
		a.t.addEntry(fn, a.e.role, held, recv, argCls, false)
		a.edge(fn)
	}
	for i, x := range c.Args {
		if i == 1 && len(fns) == 1 && fns[0].short == "muxerServer.registerPath" {
			continue // the handler value
		}
		a.walkExpr(x, st, false)
		a.escape(x, st)
	}
}

func (a *analysis) syncCondOp(f *ast.SelectorExpr, s *types.Selection, c *ast.CallExpr, st *State) bool {
	rn := namedOf(s.Recv())
	if rn == nil || rn.Obj().Pkg() == nil || rn.Obj().Pkg().Path() != "sync" || rn.Obj().Name() != "Cond" {
		return false
	}
	a.walkExpr(f.X, st, false)
	switch f.Sel.Name {
	case "Wait":
		if !st.held["mu"] {
			a.fatal(c, "cond.Wait without the muxer mutex")
		}
		// Wait releases the mutex and re-acquires it before returning: the held set is unchanged,
		// but guard facts observed before the wait are still facts (they are monotone: see KContent)
		a.t.note("%s waits on the condition variable (mutex released and re-acquired)", a.fn.short)
	case "Broadcast", "Signal":
		a.t.note("%s broadcasts with locks {%s}", a.fn.short, st.held.locks())
	default:
		a.fatal(c, "unsupported sync.Cond method %s", f.Sel.Name)
	}
	return true
}

func (a *analysis) walkBuiltin(name string, c *ast.CallExpr, st *State) {
	switch name {
	case "delete":
		a.walkExpr(c.Args[0], st, true)
		a.walkExpr(c.Args[1], st, false)
	case "copy":
		a.walkExpr(c.Args[0], st, true)
		a.walkExpr(c.Args[1], st, false)
	case "panic":
		a.walkArgs(c.Args, st)
		st.dead = true
	case "close":
		a.fatal(c, "channel close is not understood")
	default:
		for _, x := range c.Args {
			a.walkExpr(x, st, false)
			if name == "append" {
				a.escape(x, st)
			}
		}
	}
}

// externalCallbacks: external functions known to call back into the analysed code.
func (a *analysis) externalCallbacks(c *ast.CallExpr, st *State) {
	sel, ok := c.Fun.(*ast.SelectorExpr)
	if !ok {
		return
	}
	fo, ok := a.info.Uses[sel.Sel].(*types.Func)
	if !ok || fo.Pkg() == nil {
		return
	}
	if fo.Pkg().Path() == "io" && fo.Name() == "Copy" {
		// io.Copy(dst, src) calls src.Read
		rd := a.info.Types[c.Args[1]].Type
		if iface, ok := rd.Underlying().(*types.Interface); ok {
			_ = iface
			// every analysed type with a Read method that implements io.Reader
			rt := fo.Type().(*types.Signature).Params().At(1).Type().Underlying().(*types.Interface)
			for _, fn := range a.t.implementers(rt, "Read") {
				a.t.addEntry(fn, a.e.role, st.held, a.classOf(c.Args[1], st), nil, false)
				a.edge(fn)
			}
		}
	}
}

// registerHandler: registerPath(path, handler) makes the handler a reader-role root.
func (a *analysis) registerHandler(c *ast.CallExpr, st *State) {
	if len(c.Args) != 2 {
		a.fatal(c, "registerPath with %d arguments", len(c.Args))
	}
	a.walkExpr(c.Args[0], st, false)
	switch h := c.Args[1].(type) {
	case *ast.FuncLit:
		fn := a.t.closureFunc(a.fn.pkg, h)
		a.t.handlers[fn.key] = true
		a.t.addEntry(fn, "reader", tokset{}, Bot, nil, true)
		// publication: the objects the closure captured are Listed from here on
		ast.Inspect(h.Body, func(n ast.Node) bool {
			if id, ok := n.(*ast.Ident); ok {
				if v, ok := a.info.Uses[id].(*types.Var); ok && !v.IsField() {
					if v.Pos() < h.Pos() || v.Pos() > h.End() {
						if c, ok := st.cls[v]; ok && (c == Fresh || c == Open) {
							st.cls[v] = PubHere
						}
					}
				}
			}
			return true
		})
	case *ast.SelectorExpr:
		s, ok := a.info.Selections[h]
		if !ok || s.Kind() != types.MethodVal {
			a.fatal(c, "handler %s not understood", a.src(h))
		}
		fn, ok := a.t.decls[s.Obj().(*types.Func)]
		if !ok {
			a.fatal(c, "handler %s is not an analysed method", a.src(h))
		}
		a.walkExpr(h.X, st, false)
		a.t.handlers[fn.key] = true
		a.t.addEntry(fn, "reader", tokset{}, Shared, nil, true)
	default:
		a.fatal(c, "handler %s not understood", a.src(c.Args[1]))
	}
}

func (a *analysis) edge(callee *Func) {
	k := a.fn.key + "|" + a.e.role
	if a.t.edges[k] == nil {
		a.t.edges[k] = map[string]bool{}
	}
	a.t.edges[k][callee.key] = true
}
