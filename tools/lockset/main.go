// Command lockset regenerates the access table of the muxer (coq/Generated/LocksetTable.v)
// from the Go source: for every field selection on the muxer's own types, the location,
// read/write, the thread role that can execute it, the locks held, and the publication
// classes.  It fails (non-zero exit) on constructs it does not understand.
//
// usage (cwd must be the repository so that imports resolve): lockset -repo . -coq OUT.v -sites OUT.json
package main

import (
	"encoding/json"
	"flag"
	"fmt"
	"go/ast"
	"go/types"
	"os"
	"path/filepath"
	"sort"
	"strings"
)

func main() {
	repo := flag.String("repo", ".", "repository root")
	coqOut := flag.String("coq", "", "output .v file")
	sitesOut := flag.String("sites", "", "output JSON file with every access site")
	flag.Parse()
	root, err := filepath.Abs(*repo)
	if err != nil {
		fatalf("%v", err)
	}
	l := newLoader(root)
	t := &tool{l: l, walked: map[*types.Package]*Pkg{}, entries: map[string]*Entry{}, retCls: map[string]Class{},
		fieldCls: map[string]Class{}, notes: map[string]bool{}, handlers: map[string]bool{}, edges: map[string]map[string]bool{}}
	t.root = l.load(l.modPath)
	for _, sub := range []string{"/pkg/storage", "/pkg/codecs", "/pkg/codecparams"} {
		p := l.load(l.modPath + sub)
		t.walked[p.Types] = p
	}
	t.walked[t.root.Types] = t.root
	t.index()
	t.collectFuncFields()
	t.collectMutexAliases()

	// roots
	mux := t.lookupNamed("Muxer")
	nWrite := 0
	for _, fn := range t.sortedDecls() {
		if fn.recv == nil || namedOf(fn.recv.Type()) != mux || !fn.obj.Exported() {
			continue
		}
		switch {
		case fn.obj.Name() == "Start":
			t.addEntry(fn, "init", tokset{}, Shared, nil, true)
		case strings.HasPrefix(fn.obj.Name(), "Write"):
			t.addEntry(fn, "writer", tokset{}, Shared, nil, true)
			nWrite++
		case fn.obj.Name() == "Close":
			t.addEntry(fn, "closer", tokset{}, Shared, nil, true)
		case fn.obj.Name() == "Handle":
			t.addEntry(fn, "reader", tokset{}, Shared, nil, true)
		default:
			fatalf("exported method Muxer.%s has no role assigned", fn.obj.Name())
		}
	}
	if nWrite == 0 {
		fatalf("no Muxer.Write* method found")
	}
	rows := t.run()
	rows = dedupeRows(rows)
	if len(t.handlers) == 0 {
		fatalf("no handler registration found")
	}
	if *sitesOut != "" {
		writeSites(*sitesOut, rows, t)
	}
	if *coqOut != "" {
		writeCoq(*coqOut, rows, t)
	}
	fmt.Printf("lockset: %d access sites, %d functions in %d contexts, %d handlers\n", len(rows), len(t.usedFns()), len(t.order), len(t.handlers))
}

func (t *tool) sortedDecls() []*Func {
	var r []*Func
	for _, f := range t.decls {
		r = append(r, f)
	}
	sort.Slice(r, func(i, j int) bool { return r[i].key < r[j].key })
	return r
}

func (t *tool) usedFns() map[string]bool {
	r := map[string]bool{}
	for _, e := range t.entries {
		r[e.fn.key] = true
	}
	return r
}

// collectFuncFields finds `X.f = Y.method` assignments: the targets of calls through X.f.
func (t *tool) collectFuncFields() {
	for _, p := range t.walked {
		for _, f := range p.Files {
			ast.Inspect(f, func(n ast.Node) bool {
				as, ok := n.(*ast.AssignStmt)
				if !ok || len(as.Lhs) != len(as.Rhs) {
					return true
				}
				for i := range as.Lhs {
					ls, ok1 := as.Lhs[i].(*ast.SelectorExpr)
					rs, ok2 := as.Rhs[i].(*ast.SelectorExpr)
					if !ok1 || !ok2 {
						continue
					}
					lsel, ok1 := p.Info.Selections[ls]
					rsel, ok2 := p.Info.Selections[rs]
					if !ok1 || !ok2 || lsel.Kind() != types.FieldVal || rsel.Kind() != types.MethodVal {
						continue
					}
					a := &analysis{t: t, info: p.Info}
					fk, _ := a.fieldKey(ls)
					fn, ok := t.decls[rsel.Obj().(*types.Func)]
					if !ok {
						fatalf("%s: method value of an unanalysed method stored in %s", t.pos(as.Pos()), fk)
					}
					t.funcFld[fk] = append(t.funcFld[fk], fn)
				}
				return true
			})
		}
	}
	for k := range t.funcFld {
		sort.Slice(t.funcFld[k], func(i, j int) bool { return t.funcFld[k][i].key < t.funcFld[k][j].key })
	}
}

func dedupeRows(rows []Row) []Row {
	seen := map[string]bool{}
	var r []Row
	for _, x := range rows {
		k := fmt.Sprintf("%s:%d|%s|%s|%v|%s|%s|%d", x.File, x.Line, x.Fn, x.Field, x.Write, x.Role, strings.Join(x.Held, ","), x.Class)
		if seen[k] {
			continue
		}
		seen[k] = true
		r = append(r, x)
	}
	sort.SliceStable(r, func(i, j int) bool {
		a, b := r[i], r[j]
		if a.Field != b.Field {
			return a.Field < b.Field
		}
		if a.Role != b.Role {
			return a.Role < b.Role
		}
		if a.Fn != b.Fn {
			return a.Fn < b.Fn
		}
		if a.Write != b.Write {
			return !a.Write
		}
		if a.Line != b.Line {
			return a.Line < b.Line
		}
		return strings.Join(a.Held, ",") < strings.Join(b.Held, ",")
	})
	return r
}

// claims computes a_pre / a_post of a row.
func claims(x Row) (pre, post []string) {
	has := func(tok string) bool {
		for _, h := range x.Held {
			if h == tok {
				return true
			}
		}
		return false
	}
	writerSide := x.Role == "writer" || x.Role == "closer" || x.Role == "init"
	if x.Role == "init" {
		pre = append(pre, "KStart")
	} else {
		post = append(post, "KStart")
	}
	if has("@first") && x.Role == "writer" {
		pre = append(pre, "KContent")
	}
	if has("@content") && x.Role == "reader" {
		post = append(post, "KContent")
	}
	switch x.Class {
	case Fresh:
		if writerSide {
			pre = append(pre, "KInitd", "KListed")
		}
	case Open:
		if writerSide {
			pre = append(pre, "KListed")
		}
	case Listed:
		if x.Role == "reader" {
			post = append(post, "KInitd", "KListed")
		}
	case Linked:
		if x.Role == "reader" {
			post = append(post, "KInitd")
		}
	}
	return
}

func locksOf(x Row) []string {
	var r []string
	for _, h := range x.Held {
		switch h {
		case "mu":
			r = append(r, "(0, Excl)")
		case "srv:W":
			r = append(r, "(1, Excl)")
		case "srv:R":
			r = append(r, "(1, Shared)")
		}
	}
	return r
}

type site struct {
	File  string   `json:"file"`
	Line  int      `json:"line"`
	Fn    string   `json:"fn"`
	Field string   `json:"field"`
	Write bool     `json:"write"`
	Role  string   `json:"role"`
	Held  []string `json:"held"`
	Class string   `json:"class"`
	Pre   []string `json:"pre"`
	Post  []string `json:"post"`
}

func writeSites(path string, rows []Row, t *tool) {
	var ss []site
	for _, x := range rows {
		pre, post := claims(x)
		held := x.Held
		if held == nil {
			held = []string{}
		}
		if pre == nil {
			pre = []string{}
		}
		if post == nil {
			post = []string{}
		}
		ss = append(ss, site{x.File, x.Line, x.Fn, x.Field, x.Write, x.Role, held, x.Class.String(), pre, post})
	}
	var notes []string
	for n := range t.notes {
		notes = append(notes, n)
	}
	sort.Strings(notes)
	var hs []string
	for h := range t.handlers {
		hs = append(hs, h)
	}
	sort.Strings(hs)
	j, _ := json.MarshalIndent(map[string]interface{}{"sites": ss, "notes": notes, "handlers": hs}, "", " ")
	if err := os.WriteFile(path, j, 0o644); err != nil {
		fatalf("%v", err)
	}
}

func coqList(xs []string) string { return "[" + strings.Join(xs, "; ") + "]" }

func writeCoq(path string, rows []Row, t *tool) {
	fieldIdx := map[string]int{}
	fnIdx := map[string]int{}
	var fields, fns []string
	for _, x := range rows {
		if _, ok := fieldIdx[x.Field]; !ok {
			fieldIdx[x.Field] = 0
			fields = append(fields, x.Field)
		}
		if _, ok := fnIdx[x.Fn]; !ok {
			fnIdx[x.Fn] = 0
			fns = append(fns, x.Fn)
		}
	}
	sort.Strings(fields)
	sort.Strings(fns)
	for i, f := range fields {
		fieldIdx[f] = i
	}
	for i, f := range fns {
		fnIdx[f] = i
	}
	// one table row per (fn, field, rw, role, locks, claims); the first line is kept
	type trow struct {
		x         Row
		pre, post []string
	}
	seen := map[string]bool{}
	var trs []trow
	for _, x := range rows {
		pre, post := claims(x)
		k := fmt.Sprintf("%s|%s|%v|%s|%s|%s|%s", x.Fn, x.Field, x.Write, x.Role, strings.Join(locksOf(x), ","), strings.Join(pre, ","), strings.Join(post, ","))
		if seen[k] {
			continue
		}
		seen[k] = true
		trs = append(trs, trow{x, pre, post})
	}
	var sb strings.Builder
	sb.WriteString("(* GENERATED by tools/lockset from the Go source - do not edit; regenerated on every run.\n")
	sb.WriteString("   One row per (function, field, read/write, role, locks held, publication claims). *)\n")
	sb.WriteString("From Coq Require Import List String.\nFrom GoHls Require Import Model.Lockset.\nImport ListNotations.\nLocal Open Scope string_scope.\n\n")
	q := func(xs []string) []string {
		var r []string
		for _, x := range xs {
			r = append(r, "\""+x+"\"")
		}
		return r
	}
	sb.WriteString("Definition loc_names : list string :=\n  " + coqList(q(fields)) + ".\n\n")
	sb.WriteString("Definition fn_names : list string :=\n  " + coqList(q(fns)) + ".\n\n")
	sb.WriteString("(* mutex 0 = Muxer.mutex (= muxerStream.mutex), mutex 1 = muxerServer.mutex *)\n")
	sb.WriteString("Definition table : list access := [\n")
	roleName := map[string]string{"init": "Init", "writer": "Writer", "closer": "Closer", "reader": "Reader"}
	for i, r := range trs {
		if i > 0 {
			sb.WriteString(";\n")
		}
		w := "false"
		if r.x.Write {
			w = "true"
		}
		fmt.Fprintf(&sb, "  {| a_id := %d; a_loc := %d; a_write := %s; a_role := %s; a_locks := %s; a_pre := %s; a_post := %s; a_fn := %d; a_line := %d |}",
			i, fieldIdx[r.x.Field], w, roleName[r.x.Role], coqList(locksOf(r.x)), coqList(r.pre), coqList(r.post), fnIdx[r.x.Fn], r.x.Line)
	}
	sb.WriteString("\n].\n\n")
	// functions reachable (reader role) from the playlist generators
	var gen []string
	for _, f := range t.reachFrom(func(k string) bool {
		return strings.Contains(k, ".generateMediaPlaylist") || strings.Contains(k, ".generateMultivariantPlaylist")
	}, "reader") {
		if i, ok := fnIdx[f]; ok {
			gen = append(gen, fmt.Sprint(i))
		}
	}
	if len(gen) == 0 {
		fatalf("no playlist generator found in the reader role")
	}
	sb.WriteString("(* functions reachable from generateMediaPlaylist* / generateMultivariantPlaylist in the reader role *)\n")
	sb.WriteString("Definition gen_fns : list nat := " + coqList(gen) + ".\n\n")
	var notes []string
	for n := range t.notes {
		notes = append(notes, n)
	}
	sort.Strings(notes)
	sb.WriteString("Definition notes : list string :=\n  " + coqList(q(notes)) + ".\n")
	if err := os.WriteFile(path, []byte(sb.String()), 0o644); err != nil {
		fatalf("%v", err)
	}
}

// reachFrom returns the keys of the functions reachable in the role from those selected.
func (t *tool) reachFrom(sel func(string) bool, role string) []string {
	seen := map[string]bool{}
	var todo []string
	for _, k := range t.order {
		e := t.entries[k]
		if e.role == role && sel(e.fn.key) {
			todo = append(todo, e.fn.key)
		}
	}
	for len(todo) > 0 {
		k := todo[len(todo)-1]
		todo = todo[:len(todo)-1]
		if seen[k] {
			continue
		}
		seen[k] = true
		for c := range t.edges[k+"|"+role] {
			todo = append(todo, c)
		}
	}
	var r []string
	for k := range seen {
		r = append(r, k)
	}
	sort.Strings(r)
	return r
}

// collectMutexAliases finds the *sync.Mutex fields of the root package that alias the muxer mutex:
// every place that sets such a field (composite literals only; an assignment is fatal) must set it
// to &m.mutex with m the *Muxer receiver of Start.
func (t *tool) collectMutexAliases() {
	t.muAlias = map[string]bool{}
	bad := map[string]string{}
	p := t.root
	isMutexPtr := func(tp types.Type) bool {
		pt, ok := tp.(*types.Pointer)
		if !ok {
			return false
		}
		n, ok := pt.Elem().(*types.Named)
		return ok && n.Obj().Pkg() != nil && n.Obj().Pkg().Path() == "sync" && n.Obj().Name() == "Mutex"
	}
	for _, f := range p.Files {
		ast.Inspect(f, func(n ast.Node) bool {
			switch x := n.(type) {
			case *ast.CompositeLit:
				nt := namedOf(p.Info.Types[x].Type)
				if nt == nil {
					return true
				}
				for _, el := range x.Elts {
					kv, ok := el.(*ast.KeyValueExpr)
					if !ok {
						continue
					}
					id, ok := kv.Key.(*ast.Ident)
					if !ok {
						continue
					}
					fld := fieldOf(nt, id.Name)
					if fld == nil || !isMutexPtr(fld.Type()) {
						continue
					}
					fk := t.typeName(nt) + "." + id.Name
					ok = false
					if u, isU := kv.Value.(*ast.UnaryExpr); isU {
						if sel, isS := u.X.(*ast.SelectorExpr); isS {
							if s, has := p.Info.Selections[sel]; has && s.Kind() == types.FieldVal {
								if on := namedOf(s.Recv()); on != nil && t.typeName(on) == "Muxer" && sel.Sel.Name == "mutex" {
									ok = true
								}
							}
						}
					}
					if ok {
						if _, isBad := bad[fk]; !isBad {
							t.muAlias[fk] = true
						}
					} else {
						bad[fk] = t.pos(kv.Pos())
						delete(t.muAlias, fk)
					}
				}
			case *ast.AssignStmt:
				for _, l := range x.Lhs {
					if sel, ok := l.(*ast.SelectorExpr); ok {
						if s, has := p.Info.Selections[sel]; has && s.Kind() == types.FieldVal && isMutexPtr(s.Type()) {
							fatalf("%s: a mutex pointer field is assigned outside a composite literal", t.pos(x.Pos()))
						}
					}
				}
			}
			return true
		})
	}
}
