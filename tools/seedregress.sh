#!/bin/bash
# usage: tools/seedregress.sh <Cxx>...   - runs every kept seeded change of the properties against the checks as they are now
# (tools/seedtest.sh: scratch copy of /repo, VERIF_REPO); prints one line per change; exit 1 if one is not caught.
rc=0
for pid in "$@"; do
  for d in /verif/seeded/$pid-m*; do
    [ -f "$d/patch.diff" ] || continue
    out=$(/verif/tools/seedtest.sh "$pid" "$d/patch.diff" 2>&1 | tail -n 1)
    echo "$(basename "$d") $out"
    case "$out" in *"exit=1"*) ;; *) rc=1;; esac
  done
done
exit $rc
