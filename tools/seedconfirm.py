#!/usr/bin/env python3
"""usage: tools/seedconfirm.py <Cxx> <mdir> [--tier quick] [--skip-tests]

Confirms one seeded breaking change (a directory holding patch.diff, a demo test and meta.json as
produced by a mutation agent) in a scratch copy of /repo, then runs this property's check against
the patched copy (VERIF_REPO), and stores everything under /verif/seeded/<Cxx>-<name>/.

Steps, all in a scratch copy outside /repo and /verif which is removed at the end:
  1. patch applies; `go build ./...` succeeds
  2. the existing test suite passes with the patch (serialised across runs: tests bind port 5780)
  3. the demo fails with the patch and passes without it
  4. bin/check <Cxx> against the patched copy: exit code and VIOLATION lines recorded
"""
import sys, os, json, subprocess, shutil, tempfile, re, fcntl, hashlib, time

V = '/verif'
ENV = dict(os.environ, GOFLAGS='-mod=mod', GOPROXY='off', GOSUMDB='off', GOTOOLCHAIN='local')


def sh(cmd, cwd, timeout=1800, env=ENV):
    p = subprocess.run(cmd, shell=True, cwd=cwd, env=env, stdout=subprocess.PIPE,
                       stderr=subprocess.STDOUT, text=True, timeout=timeout)
    return p.returncode, p.stdout


def main():
    pid, mdir = sys.argv[1], os.path.abspath(sys.argv[2])
    tier = 'quick'
    if '--tier' in sys.argv:
        tier = sys.argv[sys.argv.index('--tier') + 1]
    skip_tests = '--skip-tests' in sys.argv
    name = os.path.basename(mdir.rstrip('/'))
    meta = json.load(open(os.path.join(mdir, 'meta.json')))
    demo = [f for f in os.listdir(mdir) if f.endswith('_test.go')]
    out = os.path.join(V, 'seeded', f'{pid}-{name}')
    os.makedirs(out, exist_ok=True)
    for f in ['patch.diff', 'meta.json'] + demo:
        shutil.copy(os.path.join(mdir, f), os.path.join(out, f if f != 'meta.json' else 'agent_meta.json'))
    d = tempfile.mkdtemp(prefix='sc-', dir='/var/tmp')
    res = {'property': pid, 'name': name, 'title': meta.get('title'), 'needs': meta.get('needs'),
           'files_touched': meta.get('files_touched'), 'demo_cmd': meta.get('demo_cmd'), 'ran': []}
    try:
        subprocess.run(f'cp -r /repo/. {d}/', shell=True, check=True)
        res['repo_head'] = subprocess.run('git -C /repo rev-parse --short HEAD', shell=True,
                                          stdout=subprocess.PIPE, text=True).stdout.strip()
        patch = os.path.join(out, 'patch.diff')
        rc, o = sh(f'git apply {patch}', d)
        res['applies'] = rc == 0
        if rc:
            res['error'] = o[-500:]
            return finish(res, out)
        rc, o = sh('go build . ./pkg/... && go build -tags verif . ./pkg/...', d)
        res['builds'] = rc == 0
        res['ran'].append('go build . ./pkg/... (with and without -tags verif)')
        if rc:
            res['error'] = o[-800:]
            return finish(res, out)
        if not skip_tests:
            # private network namespace: the suite binds the fixed port 5780
            rc, o = sh("unshare -rn sh -c 'ip link set lo up; go test -vet=off -count=1 -timeout 25m . ./pkg/... 2>&1'", d, timeout=2400)
            res['existing_tests_pass'] = rc == 0
            res['ran'].append('go test -vet=off -count=1 . ./pkg/... with the patch (in a private network namespace)')
            if rc:
                res['tests_tail'] = o[-1500:]
        # demo: with patch must fail, without must pass
        dc = meta['demo_cmd']
        dc = re.sub(r'cd /tmp/mut\d*-C\d\d\s*(&&|;)', '', dc)
        dc = re.sub(r'/tmp/mut\d*-' + pid + '/?', './', dc)
        dc = re.sub(r'(\S*)_out/' + re.escape(name) + '/', out + '/', dc)
        if 'cp ' not in dc:
            for f in demo:
                shutil.copy(os.path.join(mdir, f), os.path.join(d, meta.get('demo_dir') or '.'))
        rc1, o1 = sh(dc, d, timeout=900)
        res['demo_with_patch'] = 'fails' if rc1 else 'passes'
        res['demo_with_patch_tail'] = o1[-600:]
        sh(f'git apply -R {patch}', d)
        rc2, o2 = sh(dc, d, timeout=900)
        res['demo_without_patch'] = 'fails' if rc2 else 'passes'
        if rc2:
            res['demo_without_patch_tail'] = o2[-600:]
        res['ran'].append('demo with patch (expect fail), demo after git apply -R (expect pass)')
        # remove demo files, re-apply, run the check
        sh('git clean -fdq -e _out . ; git checkout -- . ; git apply ' + patch, d)
        for f in demo:
            for root, _, files in os.walk(d):
                if f in files:
                    os.remove(os.path.join(root, f))
        h = hashlib.sha256(d.encode()).hexdigest()[:8]
        t0 = time.time()
        rc, o = sh(f'bin/check {pid} --tier {tier}', V, timeout=3600, env=dict(os.environ, VERIF_REPO=d))
        res['check'] = {'cmd': f'VERIF_REPO=<patched copy> bin/check {pid} --tier {tier}', 'exit': rc,
                        'seconds': round(time.time() - t0, 1),
                        'violation_lines': [l for l in o.splitlines() if l.startswith('VIOLATION')][:5],
                        'summary': o.strip().splitlines()[-1:] }
        res['caught'] = rc == 1 and any(l.startswith('VIOLATION') for l in o.splitlines())
        res['ran'].append(res['check']['cmd'])
        alt = os.path.join(V, 'work', 'alt-' + h)
        rp = os.path.join(alt, 'replays', pid)
        if os.path.isdir(rp):
            files = sorted(os.listdir(rp))[:2]
            os.makedirs(os.path.join(out, 'replays'), exist_ok=True)
            for f in files:
                src = os.path.join(rp, f)
                if os.path.isfile(src) and os.path.getsize(src) < 400000:
                    shutil.copy(src, os.path.join(out, 'replays', f))
        open(os.path.join(out, 'check.log'), 'w').write(o[-6000:])
        shutil.rmtree(alt, ignore_errors=True)
        # translators write into the shared coq/Generated even for a scratch copy: put /repo's versions back
        subprocess.run('git -C /verif checkout -- coq/Generated', shell=True)
    finally:
        shutil.rmtree(d, ignore_errors=True)
    finish(res, out)


def finish(res, out):
    json.dump(res, open(os.path.join(out, 'meta.json'), 'w'), indent=1)
    ok = res.get('applies') and res.get('builds') and res.get('existing_tests_pass', True) and \
        res.get('demo_with_patch') == 'fails' and res.get('demo_without_patch') == 'passes'
    print(f"{res['property']}-{res['name']}: confirmed={bool(ok)} caught={res.get('caught')} "
          f"tests={res.get('existing_tests_pass')} demo={res.get('demo_with_patch')}/{res.get('demo_without_patch')} "
          f"check_exit={res.get('check', {}).get('exit')}")


if __name__ == '__main__':
    main()
