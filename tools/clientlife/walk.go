package main

import (
	"fmt"
	"go/ast"
	"go/token"
	"go/types"
	"sort"
	"strings"
)

// fnWalk is the state of the walk over one function body (or one function literal).
type fnWalk struct {
	tr   *translator
	file string
	top  string // name of the enclosing top-level function (numbering of literals)
	name string

	held     map[string]bool // mutexes held now
	deferred map[string]bool // mutexes whose Unlock is deferred
	reqctx   map[types.Object]*string
	resctx   map[types.Object]*string
	tokens   []string
	frames   []*frame
	inDefer  bool

	consumed map[ast.Node]bool // nodes already accounted for by their parent
	okBody   map[ast.Node]bool // permitted uses of (*http.Response).Body
}

type frame struct {
	entry    string
	hadBreak bool
	isLoop   bool
}

func (w *fnWalk) pos(n ast.Node) token.Position { return w.tr.fset.Position(n.Pos()) }

func (w *fnWalk) text(e ast.Expr) string { return types.ExprString(e) }

func (w *fnWalk) key() string {
	var l []string
	for k := range w.held {
		l = append(l, k)
	}
	sort.Strings(l)
	return strings.Join(l, ",")
}

func (w *fnWalk) heldList() []string {
	var l []string
	for k := range w.held {
		l = append(l, k)
	}
	sort.Strings(l)
	return l
}

func (w *fnWalk) setKey(k string) {
	w.held = map[string]bool{}
	if k != "" {
		for _, m := range strings.Split(k, ",") {
			w.held[m] = true
		}
	}
}

func (w *fnWalk) tok(s string) { w.tokens = append(w.tokens, s) }

// open/close structure tokens; an empty structure is removed again
func (w *fnWalk) open(s string) { w.tokens = append(w.tokens, s) }
func (w *fnWalk) close(opener string) {
	if n := len(w.tokens); n > 0 && w.tokens[n-1] == opener {
		w.tokens = w.tokens[:n-1]
		return
	}
	w.tokens = append(w.tokens, "}")
}

func (w *fnWalk) emitOp(n ast.Node, kind, token string) {
	if w.inDefer {
		die(w.pos(n), "blocking operation inside a deferred call: not understood")
	}
	w.tr.ops = append(w.tr.ops, opRec{file: w.file, fn: w.name, line: w.pos(n).Line, kind: kind, held: w.heldList()})
	w.tok(token)
}

func isNamed(t types.Type, pkg, name string) bool {
	if p, ok := t.(*types.Pointer); ok {
		t = p.Elem()
	}
	n, ok := t.(*types.Named)
	if !ok {
		return false
	}
	o := n.Obj()
	return o.Name() == name && o.Pkg() != nil && o.Pkg().Path() == pkg
}

func isContext(t types.Type) bool { return t != nil && isNamed(t, "context", "Context") }

func isChan(t types.Type) bool {
	if t == nil {
		return false
	}
	_, ok := t.Underlying().(*types.Chan)
	return ok
}

// shortName: Type.method / func for functions of the package under translation, FullName otherwise
func (tr *translator) shortName(f *types.Func) (string, bool) {
	if f.Pkg() != tr.pkg {
		return f.FullName(), false
	}
	sig := f.Type().(*types.Signature)
	if r := sig.Recv(); r != nil {
		t := r.Type()
		if p, ok := t.(*types.Pointer); ok {
			t = p.Elem()
		}
		if n, ok := t.(*types.Named); ok {
			return n.Obj().Name() + "." + f.Name(), true
		}
		return f.FullName(), true
	}
	return f.Name(), true
}

// ---------------------------------------------------------------- declarations

func (tr *translator) file(name string, f *ast.File) {
	for _, d := range f.Decls {
		switch d := d.(type) {
		case *ast.FuncDecl:
			if d.Body == nil {
				die(tr.fset.Position(d.Pos()), "function without body: not understood")
			}
			fn := d.Name.Name
			if d.Recv != nil {
				if len(d.Recv.List) != 1 {
					die(tr.fset.Position(d.Pos()), "receiver list: not understood")
				}
				t := d.Recv.List[0].Type
				if s, ok := t.(*ast.StarExpr); ok {
					t = s.X
				}
				id, ok := t.(*ast.Ident)
				if !ok {
					die(tr.fset.Position(d.Pos()), "receiver type %s: not understood", types.ExprString(t))
				}
				fn = id.Name + "." + fn
			}
			tr.function(name, fn, fn, d.Type, d.Body)
		case *ast.GenDecl:
			ast.Inspect(d, func(n ast.Node) bool {
				switch n := n.(type) {
				case *ast.FuncLit:
					die(tr.fset.Position(n.Pos()), "function literal in a package-level declaration: not understood")
				case *ast.UnaryExpr:
					if n.Op == token.ARROW {
						die(tr.fset.Position(n.Pos()), "channel receive in a package-level declaration: not understood")
					}
				case *ast.CallExpr:
					if tv, ok := tr.info.Types[n.Fun]; ok && tv.IsType() {
						return true
					}
					if id, ok := n.Fun.(*ast.Ident); ok {
						if _, ok := tr.info.Uses[id].(*types.Builtin); ok {
							return true
						}
					}
					if se, ok := n.Fun.(*ast.SelectorExpr); ok {
						if f, ok := tr.info.Uses[se.Sel].(*types.Func); ok && f.FullName() == "errors.New" {
							return true
						}
					}
					die(tr.fset.Position(n.Pos()), "call %s in a package-level declaration: not understood", types.ExprString(n.Fun))
				}
				return true
			})
		default:
			die(tr.fset.Position(d.Pos()), "declaration: not understood")
		}
	}
}

func (tr *translator) function(file, top, name string, ft *ast.FuncType, body *ast.BlockStmt) {
	w := &fnWalk{tr: tr, file: file, top: top, name: name,
		held: map[string]bool{}, deferred: map[string]bool{},
		reqctx: map[types.Object]*string{}, resctx: map[types.Object]*string{},
		consumed: map[ast.Node]bool{}, okBody: map[ast.Node]bool{}}
	if ft.Params != nil {
		for _, p := range ft.Params.List {
			if !isContext(tr.info.TypeOf(p.Type)) {
				continue
			}
			if len(p.Names) == 0 {
				tr.ctxParams = append(tr.ctxParams, [2]string{name, "_"})
			}
			for _, n := range p.Names {
				tr.ctxParams = append(tr.ctxParams, [2]string{name, n.Name})
			}
		}
	}
	term := w.stmts(body.List)
	if !term {
		w.checkLeak(body.Rbrace)
	}
	tr.skel = append(tr.skel, skelRec{fn: name, tokens: w.tokens})
}

func (w *fnWalk) checkLeak(p token.Pos) {
	for _, m := range w.heldList() {
		if !w.deferred[m] {
			w.tr.leaks = append(w.tr.leaks, [2]string{w.name, fmt.Sprintf("%s (line %d)", m, w.tr.fset.Position(p).Line)})
		}
	}
}

// literal queues a function literal as a function of its own (fresh lock state)
func (w *fnWalk) literal(l *ast.FuncLit) string {
	w.tr.nlit[w.top]++
	name := fmt.Sprintf("%s$%d", w.top, w.tr.nlit[w.top])
	w.tr.function(w.file, w.top, name, l.Type, l.Body)
	return name
}

// ---------------------------------------------------------------- statements

// stmts walks a statement list; reports whether control cannot fall out of its end
func (w *fnWalk) stmts(l []ast.Stmt) bool {
	for i, s := range l {
		if w.stmt(s) {
			if i != len(l)-1 {
				die(w.pos(l[i+1]), "unreachable statement: not understood")
			}
			return true
		}
	}
	return false
}

func (w *fnWalk) join(n ast.Node, exits []string, entry string) bool {
	if len(exits) == 0 {
		w.setKey(entry)
		return true
	}
	for _, e := range exits[1:] {
		if e != exits[0] {
			die(w.pos(n), "branches end with different sets of held mutexes (%q vs %q): not understood", exits[0], e)
		}
	}
	w.setKey(exits[0])
	return false
}

func (w *fnWalk) stmt(s ast.Stmt) (terminated bool) {
	switch s := s.(type) {
	case nil:
		return false
	case *ast.EmptyStmt:
		return false
	case *ast.BlockStmt:
		return w.stmts(s.List)
	case *ast.ExprStmt:
		if c, ok := s.X.(*ast.CallExpr); ok {
			if id, ok := c.Fun.(*ast.Ident); ok {
				if b, ok := w.tr.info.Uses[id].(*types.Builtin); ok && b.Name() == "panic" {
					w.exprs(c.Args...)
					w.tok("panic")
					return true
				}
			}
			w.call(c, true)
			return false
		}
		w.expr(s.X)
		return false
	case *ast.SendStmt:
		w.expr(s.Chan)
		w.expr(s.Value)
		ch := w.text(s.Chan)
		w.emitOp(s, "KSend "+q(ch), "send "+ch)
		return false
	case *ast.IncDecStmt:
		w.expr(s.X)
		return false
	case *ast.AssignStmt:
		w.assign(s)
		return false
	case *ast.DeclStmt:
		gd, ok := s.Decl.(*ast.GenDecl)
		if !ok {
			die(w.pos(s), "declaration statement: not understood")
		}
		for _, sp := range gd.Specs {
			if vs, ok := sp.(*ast.ValueSpec); ok {
				w.exprs(vs.Values...)
				for i, n := range vs.Names {
					if i < len(vs.Values) && isContext(w.tr.info.TypeOf(n)) {
						w.flow("FAssign "+q(n.Name), w.text(vs.Values[i]))
					}
				}
			}
		}
		return false
	case *ast.GoStmt:
		w.exprs(s.Call.Args...)
		if l, ok := s.Call.Fun.(*ast.FuncLit); ok {
			n := w.literal(l)
			w.tr.gos = append(w.tr.gos, [2]string{w.name, n})
			w.tok("go " + n)
		} else {
			t := w.text(s.Call)
			w.tr.gos = append(w.tr.gos, [2]string{w.name, t})
			w.tok("go " + t)
		}
		return false
	case *ast.DeferStmt:
		w.deferStmt(s)
		return false
	case *ast.ReturnStmt:
		w.exprs(s.Results...)
		w.checkLeak(s.Pos())
		w.tok("return")
		return true
	case *ast.BranchStmt:
		if s.Label != nil || (s.Tok != token.BREAK && s.Tok != token.CONTINUE) {
			die(w.pos(s), "%s with label / goto / fallthrough: not understood", s.Tok)
		}
		var f *frame
		for i := len(w.frames) - 1; i >= 0; i-- {
			if s.Tok == token.BREAK || w.frames[i].isLoop {
				f = w.frames[i]
				break
			}
		}
		if f == nil {
			die(w.pos(s), "%s outside a loop: not understood", s.Tok)
		}
		if w.key() != f.entry {
			die(w.pos(s), "%s with a different set of held mutexes than at the construct's entry: not understood", s.Tok)
		}
		if s.Tok == token.BREAK {
			f.hadBreak = true
			w.tok("break")
		} else {
			w.tok("continue")
		}
		return true
	case *ast.IfStmt:
		w.stmt(s.Init)
		w.expr(s.Cond)
		entry := w.key()
		var exits []string
		w.open("if{")
		if !w.stmts(s.Body.List) {
			exits = append(exits, w.key())
		}
		w.close("if{")
		w.setKey(entry)
		if s.Else != nil {
			w.open("else{")
			if !w.stmt(s.Else) {
				exits = append(exits, w.key())
			}
			w.close("else{")
		} else {
			exits = append(exits, entry)
		}
		return w.join(s, exits, entry)
	case *ast.ForStmt:
		w.stmt(s.Init)
		w.expr(s.Cond)
		return w.loop(s, s.Body, func() { w.stmt(s.Post) }, s.Cond == nil)
	case *ast.RangeStmt:
		w.expr(s.X)
		if isChan(w.tr.info.TypeOf(s.X)) {
			ch := w.text(s.X)
			w.emitOp(s, "KRecv "+q("range "+ch), "recv range "+ch)
		}
		return w.loop(s, s.Body, func() {}, false)
	case *ast.SwitchStmt:
		w.stmt(s.Init)
		w.expr(s.Tag)
		return w.clauses(s, s.Body)
	case *ast.TypeSwitchStmt:
		w.stmt(s.Init)
		switch a := s.Assign.(type) {
		case *ast.ExprStmt:
			w.expr(a.X)
		case *ast.AssignStmt:
			w.exprs(a.Rhs...)
		default:
			die(w.pos(s), "type switch guard: not understood")
		}
		return w.clauses(s, s.Body)
	case *ast.SelectStmt:
		return w.selectStmt(s)
	case *ast.LabeledStmt:
		die(w.pos(s), "labeled statement: not understood")
	}
	die(w.pos(s), "statement %T: not understood", s)
	return false
}

func (w *fnWalk) loop(n ast.Node, body *ast.BlockStmt, post func(), infinite bool) bool {
	entry := w.key()
	f := &frame{entry: entry, isLoop: true}
	w.frames = append(w.frames, f)
	w.open("for{")
	if !w.stmts(body.List) {
		post()
		if w.key() != entry {
			die(w.pos(n), "loop body changes the set of held mutexes (%q -> %q): not understood", entry, w.key())
		}
	}
	w.close("for{")
	w.frames = w.frames[:len(w.frames)-1]
	w.setKey(entry)
	return infinite && !f.hadBreak
}

func (w *fnWalk) clauses(n ast.Node, body *ast.BlockStmt) bool {
	entry := w.key()
	f := &frame{entry: entry}
	w.frames = append(w.frames, f)
	var exits []string
	hasDefault := false
	for _, c := range body.List {
		cc, ok := c.(*ast.CaseClause)
		if !ok {
			die(w.pos(c), "switch clause: not understood")
		}
		if cc.List == nil {
			hasDefault = true
		}
		w.setKey(entry)
		for _, e := range cc.List {
			if tv, ok := w.tr.info.Types[e]; ok && tv.IsType() {
				continue
			}
			w.expr(e)
		}
		w.open("case{")
		if !w.stmts(cc.Body) {
			exits = append(exits, w.key())
		}
		w.close("case{")
	}
	w.frames = w.frames[:len(w.frames)-1]
	if !hasDefault || f.hadBreak {
		exits = append(exits, entry)
	}
	return w.join(n, exits, entry)
}

// recvOf classifies the operand of a receive: done(ctx expr) / after / plain channel
func (w *fnWalk) recvOf(u *ast.UnaryExpr) (kind, arg string) {
	x := ast.Unparen(u.X)
	if c, ok := x.(*ast.CallExpr); ok {
		switch w.calleeName(c) {
		case "(context.Context).Done":
			se := c.Fun.(*ast.SelectorExpr)
			w.consumed[c] = true
			w.expr(se.X)
			return "done", w.text(se.X)
		case "time.After":
			w.consumed[c] = true
			w.exprs(c.Args...)
			return "after", w.text(c)
		}
	}
	w.expr(u.X)
	return "chan", w.text(u.X)
}

func (w *fnWalk) selectStmt(s *ast.SelectStmt) bool {
	var alts, toks []string
	type pend struct {
		cc *ast.CommClause
	}
	var clauses []*ast.CommClause
	for _, c := range s.Body.List {
		cc, ok := c.(*ast.CommClause)
		if !ok {
			die(w.pos(c), "select clause: not understood")
		}
		clauses = append(clauses, cc)
		var u *ast.UnaryExpr
		switch comm := cc.Comm.(type) {
		case nil:
			alts = append(alts, "ADefault")
			toks = append(toks, "default")
			continue
		case *ast.SendStmt:
			w.expr(comm.Chan)
			w.expr(comm.Value)
			alts = append(alts, "ASend "+q(w.text(comm.Chan)))
			toks = append(toks, "send "+w.text(comm.Chan))
			continue
		case *ast.ExprStmt:
			u, _ = ast.Unparen(comm.X).(*ast.UnaryExpr)
		case *ast.AssignStmt:
			if len(comm.Rhs) == 1 {
				u, _ = ast.Unparen(comm.Rhs[0]).(*ast.UnaryExpr)
			}
			for _, l := range comm.Lhs {
				if isContext(w.tr.info.TypeOf(l)) {
					die(w.pos(comm), "context received from a channel: not understood")
				}
			}
		}
		if u == nil || u.Op != token.ARROW {
			die(w.pos(cc), "select communication: not understood")
		}
		w.consumed[u] = true
		k, a := w.recvOf(u)
		switch k {
		case "done":
			alts = append(alts, "ADone "+q(a))
			toks = append(toks, "done "+a)
		case "after":
			alts = append(alts, "AAfter")
			toks = append(toks, "after")
		default:
			alts = append(alts, "ARecv "+q(a))
			toks = append(toks, "recv "+a)
		}
	}
	w.emitOp(s, "KSelect ["+strings.Join(alts, "; ")+"]", "select["+strings.Join(toks, " | ")+"]")
	entry := w.key()
	f := &frame{entry: entry}
	w.frames = append(w.frames, f)
	var exits []string
	for _, cc := range clauses {
		w.setKey(entry)
		w.open("case{")
		if !w.stmts(cc.Body) {
			exits = append(exits, w.key())
		}
		w.close("case{")
	}
	w.frames = w.frames[:len(w.frames)-1]
	if f.hadBreak {
		exits = append(exits, entry)
	}
	if len(clauses) == 0 {
		// select {} blocks forever
		return true
	}
	return w.join(s, exits, entry)
}

func (w *fnWalk) deferStmt(s *ast.DeferStmt) {
	c := s.Call
	if l, ok := c.Fun.(*ast.FuncLit); ok {
		w.exprs(c.Args...)
		w.tok("defer " + w.literal(l))
		return
	}
	switch w.calleeName(c) {
	case "(*sync.Mutex).Unlock", "(*sync.RWMutex).Unlock", "(*sync.RWMutex).RUnlock":
		m := w.text(c.Fun.(*ast.SelectorExpr).X)
		if !w.held[m] {
			die(w.pos(s), "deferred unlock of %s which is not held here: not understood", m)
		}
		w.deferred[m] = true
		w.tok("defer unlock " + m)
		return
	case "(*sync.WaitGroup).Done":
		w.tok("defer wg.Done " + w.text(c.Fun.(*ast.SelectorExpr).X))
		return
	}
	w.inDefer = true
	w.tok("defer{")
	w.call(c, true)
	w.close("defer{")
	w.inDefer = false
}

func (w *fnWalk) flow(kind, expr string) {
	w.tr.flows = append(w.tr.flows, flowRec{fn: w.name, kind: kind, expr: expr})
}

func (w *fnWalk) assign(s *ast.AssignStmt) {
	// request / response bindings
	if len(s.Rhs) == 1 {
		if c, ok := ast.Unparen(s.Rhs[0]).(*ast.CallExpr); ok {
			name := w.calleeName(c)
			lhs0, _ := s.Lhs[0].(*ast.Ident)
			var obj types.Object
			if lhs0 != nil {
				obj = w.tr.info.Defs[lhs0]
				if obj == nil {
					obj = w.tr.info.Uses[lhs0]
				}
			}
			switch name {
			case "net/http.NewRequestWithContext", "net/http.NewRequest":
				if obj == nil {
					die(w.pos(s), "%s not assigned to a plain variable: not understood", name)
				}
				w.consumed[c] = true
				w.exprs(c.Args...)
				if name == "net/http.NewRequestWithContext" {
					t := w.text(c.Args[0])
					w.reqctx[obj] = &t
					w.flow("FArg "+q(name), t)
				} else {
					w.reqctx[obj] = nil
				}
				return
			case "(*net/http.Client).Do":
				if obj != nil {
					w.resctx[obj] = w.doCtx(c)
				}
			}
		}
	}
	w.exprs(s.Rhs...)
	for i, l := range s.Lhs {
		w.expr(l)
		if isContext(w.tr.info.TypeOf(l)) {
			r := ""
			if len(s.Rhs) == len(s.Lhs) {
				r = w.text(s.Rhs[i])
			} else {
				r = w.text(s.Rhs[0])
			}
			w.flow("FAssign "+q(w.text(l)), r)
		}
		if id, ok := l.(*ast.Ident); ok {
			// a request/response variable that is reassigned from something else loses its binding
			obj := w.tr.info.Uses[id]
			if obj != nil && len(s.Rhs) >= 1 {
				if c, ok := ast.Unparen(s.Rhs[0]).(*ast.CallExpr); !ok || (w.calleeName(c) != "(*net/http.Client).Do") {
					if _, had := w.reqctx[obj]; had {
						w.reqctx[obj] = nil
					}
					if _, had := w.resctx[obj]; had && i == 0 {
						w.resctx[obj] = nil
					}
				}
			}
		}
	}
}

// doCtx: the context of the request passed to client.Do, if it is a variable bound by
// http.NewRequestWithContext in this function
func (w *fnWalk) doCtx(c *ast.CallExpr) *string {
	if len(c.Args) != 1 {
		return nil
	}
	id, ok := ast.Unparen(c.Args[0]).(*ast.Ident)
	if !ok {
		return nil
	}
	return w.reqctx[w.tr.info.Uses[id]]
}
