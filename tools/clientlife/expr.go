package main

import (
	"go/ast"
	"go/token"
	"go/types"
	"strings"
)

// calleeName: FullName of the called function or method ("" if the callee is not a
// declared function: a function value, a conversion, a builtin)
func (w *fnWalk) calleeName(c *ast.CallExpr) string {
	if f := w.calleeFunc(c); f != nil {
		return f.FullName()
	}
	return ""
}

func (w *fnWalk) calleeFunc(c *ast.CallExpr) *types.Func {
	switch fun := ast.Unparen(c.Fun).(type) {
	case *ast.Ident:
		f, _ := w.tr.info.Uses[fun].(*types.Func)
		return f
	case *ast.SelectorExpr:
		if sel := w.tr.info.Selections[fun]; sel != nil {
			if sel.Kind() == types.MethodVal {
				f, _ := sel.Obj().(*types.Func)
				return f
			}
			return nil
		}
		f, _ := w.tr.info.Uses[fun.Sel].(*types.Func)
		return f
	}
	return nil
}

func (w *fnWalk) exprs(l ...ast.Expr) {
	for _, e := range l {
		w.expr(e)
	}
}

// expr scans an expression for blocking operations, calls, function literals and
// context-typed composite-literal fields
func (w *fnWalk) expr(e ast.Expr) {
	if e == nil {
		return
	}
	ast.Inspect(e, func(n ast.Node) bool {
		if n == nil {
			return true
		}
		if w.consumed[n] {
			return false
		}
		switch n := n.(type) {
		case *ast.FuncLit:
			w.tok("func " + w.literal(n))
			return false
		case *ast.CallExpr:
			w.call(n, false)
			return false
		case *ast.UnaryExpr:
			if n.Op == token.ARROW {
				k, a := w.recvOf(n)
				switch k {
				case "done":
					w.emitOp(n, "KRecvDone "+q(a), "done "+a)
				case "after":
					w.emitOp(n, "KSleep", "sleep "+a)
				default:
					w.emitOp(n, "KRecv "+q(a), "recv "+a)
				}
				return false
			}
		case *ast.SelectorExpr:
			if n.Sel.Name == "Body" && isNamed(w.tr.info.TypeOf(n.X), "net/http", "Response") && !w.okBody[n] {
				die(w.pos(n), "use of a response body other than io.ReadAll(x.Body) / x.Body.Close(): not understood")
			}
		case *ast.CompositeLit:
			for _, el := range n.Elts {
				kv, ok := el.(*ast.KeyValueExpr)
				if !ok {
					if isContext(w.tr.info.TypeOf(el)) {
						die(w.pos(el), "positional context field in a composite literal: not understood")
					}
					continue
				}
				if isContext(w.tr.info.TypeOf(kv.Value)) {
					key := types.ExprString(kv.Key)
					t := ""
					if n.Type != nil {
						t = types.ExprString(n.Type)
					}
					w.flow("FField "+q(t+"."+key), w.text(kv.Value))
				}
			}
		}
		return true
	})
}

var httpNonBlocking = map[string]bool{
	"(net/http.Header).Add": true, "(net/http.Header).Set": true, "(net/http.Header).Get": true,
	"(net/http.Header).Del": true, "(net/http.Header).Values": true,
}

var httpNoCtx = map[string]bool{
	"net/http.Get": true, "net/http.Post": true, "net/http.Head": true, "net/http.PostForm": true,
	"(*net/http.Client).Get": true, "(*net/http.Client).Post": true, "(*net/http.Client).Head": true,
	"(*net/http.Client).PostForm": true,
}

// call handles one call expression; stmt = the call is a whole statement
func (w *fnWalk) call(c *ast.CallExpr, stmt bool) {
	tr := w.tr
	fun := ast.Unparen(c.Fun)

	// conversion
	if tv, ok := tr.info.Types[fun]; ok && tv.IsType() {
		w.exprs(c.Args...)
		return
	}
	// immediately invoked literal
	if l, ok := fun.(*ast.FuncLit); ok {
		w.exprs(c.Args...)
		w.tok("call " + w.literal(l))
		return
	}
	// builtin
	if id, ok := fun.(*ast.Ident); ok {
		if b, ok := tr.info.Uses[id].(*types.Builtin); ok {
			w.exprs(c.Args...)
			if b.Name() == "close" {
				w.tok("close " + w.text(c.Args[0]))
			}
			return
		}
	}

	// receiver / function expression, then arguments (evaluation order)
	var recv ast.Expr
	if se, ok := fun.(*ast.SelectorExpr); ok {
		if tr.info.Selections[se] != nil {
			recv = se.X
		}
	}

	f := w.calleeFunc(c)
	name := ""
	if f != nil {
		name = f.FullName()
	}

	// permitted uses of a response body
	if name == "io.ReadAll" && len(c.Args) == 1 {
		if se, ok := ast.Unparen(c.Args[0]).(*ast.SelectorExpr); ok {
			w.okBody[se] = true
		}
	}
	if se, ok := recv.(*ast.SelectorExpr); ok && f != nil && f.Name() == "Close" {
		w.okBody[se] = true
	}

	if recv != nil {
		w.expr(recv)
	} else if f == nil {
		w.expr(fun)
	}
	w.exprs(c.Args...)

	// context arguments
	if sig, ok := tr.info.TypeOf(fun).Underlying().(*types.Signature); ok {
		ps := sig.Params()
		for i := 0; i < ps.Len() && i < len(c.Args); i++ {
			if !isContext(ps.At(i).Type()) {
				continue
			}
			if sig.Variadic() && i == ps.Len()-1 {
				die(w.pos(c), "variadic context parameter: not understood")
			}
			callee := w.text(fun)
			if f != nil {
				callee, _ = tr.shortName(f)
			}
			w.flow("FArg "+q(callee), w.text(c.Args[i]))
		}
		for i := 0; i < len(c.Args); i++ {
			if isContext(tr.info.TypeOf(c.Args[i])) {
				pi := i
				if pi >= ps.Len() {
					pi = ps.Len() - 1
				}
				if pi < 0 || !isContext(ps.At(pi).Type()) {
					die(w.pos(c), "context passed as a non-context parameter (interface{}?): not understood")
				}
			}
		}
	} else {
		die(w.pos(c), "call of %s: not understood", w.text(fun))
	}

	held := len(w.held) > 0

	if f == nil {
		// a function value: a struct field (callback, cancel function) or a local variable
		t := w.text(fun)
		if se, ok := fun.(*ast.SelectorExpr); ok && tr.info.Selections[se] != nil &&
			strings.Contains(strings.ToLower(se.Sel.Name), "cancel") {
			tr.cancels = append(tr.cancels, [2]string{w.name, t})
			w.tok("cancel " + t)
		} else {
			w.tok("callvalue " + t)
		}
		if held {
			tr.lcalls = append(tr.lcalls, [2]string{w.name, "value:" + t})
		}
		return
	}

	short, internal := tr.shortName(f)
	recvText := ""
	if recv != nil {
		recvText = w.text(recv)
	}

	switch name {
	case "(*sync.Mutex).Lock", "(*sync.RWMutex).Lock", "(*sync.RWMutex).RLock":
		if !stmt {
			die(w.pos(c), "Lock not as a statement: not understood")
		}
		w.emitOp(c, "KLock "+q(recvText), "lock "+recvText)
		if w.held[recvText] {
			die(w.pos(c), "Lock of %s which is already held: not understood", recvText)
		}
		w.held[recvText] = true
		return
	case "(*sync.Mutex).Unlock", "(*sync.RWMutex).Unlock", "(*sync.RWMutex).RUnlock":
		if !stmt || w.inDefer {
			die(w.pos(c), "Unlock not as a statement: not understood")
		}
		if !w.held[recvText] {
			die(w.pos(c), "Unlock of %s which is not held here: not understood", recvText)
		}
		if w.deferred[recvText] {
			die(w.pos(c), "Unlock of %s whose unlock is also deferred: not understood", recvText)
		}
		delete(w.held, recvText)
		w.tok("unlock " + recvText)
		return
	case "(*sync.Mutex).TryLock", "(*sync.RWMutex).TryLock", "(*sync.RWMutex).TryRLock":
		die(w.pos(c), "TryLock: not understood")
	case "(*sync.WaitGroup).Wait":
		w.emitOp(c, "KWgWait "+q(recvText), "wg.Wait "+recvText)
		return
	case "(*sync.WaitGroup).Add":
		w.tok("wg.Add " + recvText)
		return
	case "(*sync.WaitGroup).Done":
		w.tok("wg.Done " + recvText)
		return
	case "(*sync.Cond).Wait":
		w.emitOp(c, "KCondWait "+q(recvText), "cond.Wait "+recvText)
		return
	case "(*sync.Cond).Broadcast", "(*sync.Cond).Signal":
		w.tok("cond.Broadcast " + recvText)
		return
	case "time.Sleep":
		w.emitOp(c, "KSleep", "sleep")
		return
	case "time.After", "time.Tick", "time.NewTimer", "time.NewTicker", "time.AfterFunc":
		die(w.pos(c), "%s outside the operand of a receive: not understood", name)
	case "(context.Context).Done":
		die(w.pos(c), "Done() outside the operand of a receive: not understood")
	case "net/http.NewRequestWithContext", "net/http.NewRequest":
		die(w.pos(c), "%s whose result is not assigned to a variable: not understood", name)
	case "(*net/http.Client).Do":
		w.emitOp(c, "KHttpDo "+q(recvText)+" "+optq(w.doCtx(c)), "http.Do "+recvText)
		return
	case "io.ReadAll":
		arg := ast.Unparen(c.Args[0])
		if se, ok := arg.(*ast.SelectorExpr); ok && se.Sel.Name == "Body" &&
			isNamed(tr.info.TypeOf(se.X), "net/http", "Response") {
			var ctx *string
			if id, ok := ast.Unparen(se.X).(*ast.Ident); ok {
				ctx = w.resctx[tr.info.Uses[id]]
			}
			w.emitOp(c, "KReadAll "+q(w.text(arg))+" "+optq(ctx), "io.ReadAll "+w.text(arg))
			return
		}
		t := tr.info.TypeOf(arg)
		if isNamed(t, "bytes", "Reader") || isNamed(t, "bytes", "Buffer") || isNamed(t, "strings", "Reader") {
			return
		}
		w.emitOp(c, "KReadAll "+q(w.text(arg))+" None", "io.ReadAll "+w.text(arg))
		return
	}
	if httpNoCtx[name] {
		w.emitOp(c, "KHttpDo "+q(w.text(fun))+" None", "http "+name)
		return
	}
	if f.Pkg() != nil {
		switch f.Pkg().Path() {
		case "sync":
			die(w.pos(c), "%s: not understood", name)
		case "net/http":
			if !httpNonBlocking[name] {
				die(w.pos(c), "%s: not understood", name)
			}
		case "net", "os", "os/exec", "os/signal", "io":
			bodyClose := false
			if se, ok := recv.(*ast.SelectorExpr); ok && name == "(io.Closer).Close" && se.Sel.Name == "Body" &&
				isNamed(tr.info.TypeOf(se.X), "net/http", "Response") {
				bodyClose = true
			}
			if name == "(io.Reader).Read" || name == "(io.Writer).Write" {
				w.emitOp(c, "KIoRead "+q(recvText), "io "+recvText)
				return
			}
			if name != "io.ReadAll" && !bodyClose {
				die(w.pos(c), "%s (may block): not understood", name)
			}
		}
	}

	if internal {
		tr.calls = append(tr.calls, [2]string{w.name, short})
		w.tok("call " + short)
		if held {
			tr.lcalls = append(tr.lcalls, [2]string{w.name, short})
		}
	} else if held {
		tr.lcalls = append(tr.lcalls, [2]string{w.name, "ext:" + name})
	}
}
