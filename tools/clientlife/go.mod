module clientlife

go 1.22
