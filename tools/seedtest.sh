#!/bin/bash
# usage: tools/seedtest.sh <Cxx> <patch.diff> [tier]
# Runs bin/check <Cxx> against a scratch copy of /repo with the patch applied (VERIF_REPO), so that
# /repo itself stays untouched. Prints the check's tail and exit code; removes the scratch copy.
set -u
pid=$1; patch=$2; tier=${3:-quick}
d=$(mktemp -d /var/tmp/seed-XXXXXX)
cp -r /repo/. "$d/"
if ! git -C "$d" apply "$patch"; then echo "PATCH DOES NOT APPLY"; rm -rf "$d"; exit 3; fi
h=$(python3 -c "import hashlib,sys;print(hashlib.sha256(sys.argv[1].encode()).hexdigest()[:8])" "$d")
(cd /verif && VERIF_REPO="$d" timeout 1800 bin/check "$pid" --tier "$tier" 2>&1 | tail -8)
rc=${PIPESTATUS[0]}
echo "seedtest: $pid exit=$rc"
rm -rf "$d" "/verif/work/alt-$h"
exit $rc
