#!/bin/bash
# usage: tools/seedtest.sh <Cxx> <patch.diff> [tier]
# Runs bin/check <Cxx> against a scratch copy of /repo with the patch applied (VERIF_REPO), so that
# /repo itself stays untouched. Prints the check's tail and exit code; removes the scratch copy.
set -u
pid=$1; patch=$2; tier=${3:-quick}
d=$(mktemp -d /var/tmp/seed-XXXXXX)
cp -r /repo/. "$d/"
if ! git -C "$d" apply "$patch"; then echo "PATCH DOES NOT APPLY"; rm -rf "$d"; exit 3; fi
h=$(python3 -c "import hashlib,sys;print(hashlib.sha256(sys.argv[1].encode()).hexdigest()[:8])" "$d")
log=$(mktemp /var/tmp/seedlog-XXXXXX)
(cd /verif && VERIF_REPO="$d" timeout 1800 bin/check "$pid" --tier "$tier" >"$log" 2>&1); rc=$?
tail -8 "$log"
if [ -n "${SEED_KEEP:-}" ]; then mkdir -p "$SEED_KEEP"; cp "$log" "$SEED_KEEP/check.log"; cp -r "/verif/work/alt-$h/replays/$pid" "$SEED_KEEP/replays" 2>/dev/null; fi
rm -f "$log"
echo "seedtest: $pid exit=$rc"
rm -rf "$d" "/verif/work/alt-$h"
# translators write into the shared coq/Generated even for a scratch copy: put /repo's versions back
# (under the driver's "coq" lock: a check of another property may be between its translator and its build)
mkdir -p /verif/work
flock /verif/work/.coq.lock git -C /verif checkout -- coq/Generated 2>/dev/null
exit $rc
