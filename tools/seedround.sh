#!/bin/bash
# usage: tools/seedround.sh <round-dir-prefix> <Cxx> <m-names...>
# e.g.   tools/seedround.sh /tmp/mut5 C01 m5 m6
# Collects a mutation agent's output (<prefix>-<Cxx>/_out/<m>) into /var/tmp/reseed/<Cxx>/, removes the agent's
# worktree and confirms each change (tools/seedconfirm.py), one log per change under /var/tmp/reseed/.
set -u
pre=$1; pid=$2; shift 2
mkdir -p /var/tmp/reseed/$pid
for m in "$@"; do cp -r "$pre-$pid/_out/$m" /var/tmp/reseed/$pid/ 2>/dev/null; done
git -C /repo worktree remove --force "$pre-$pid" 2>/dev/null
for m in "$@"; do
  [ -d /var/tmp/reseed/$pid/$m ] || { echo "$pid-$m: missing"; continue; }
  /verif/tools/seedconfirm.py $pid /var/tmp/reseed/$pid/$m > /var/tmp/reseed/$pid-$m.log 2>&1
  tail -n 1 /var/tmp/reseed/$pid-$m.log
done
