// Command muxconc-skel extracts the synchronisation skeleton of the muxer's request handlers,
// rotation wrappers and Close from /repo (go/parser + go/ast) and prints it as a Coq term
// (coq/Generated/MuxConcSkel.v). Model/MuxConcSkelExp.v holds the skeletons the pc automata of
// Model/MuxConcPar.v were transcribed from; Props/C07.v proves the two equal by reflexivity, so a
// change of the locking structure in the source breaks the proof leg instead of going unnoticed.
// It fails (non-zero exit) on syntax it does not understand.
package main

import (
	"bytes"
	"fmt"
	"go/ast"
	"go/parser"
	"go/printer"
	"go/token"
	"os"
	"path/filepath"
	"strings"
)

var fset = token.NewFileSet()

type node struct {
	kind string // Lock Unlock DeferUnlock Wait Broadcast Hook Loop If Break Return Func
	arg  string
	a, b []node
}

func src(n ast.Node) string {
	var buf bytes.Buffer
	printer.Fprint(&buf, fset, n)
	return strings.Join(strings.Fields(buf.String()), " ")
}

func fail(n ast.Node, what string) {
	fmt.Fprintf(os.Stderr, "muxconc-skel: %s: %s: %s\n", fset.Position(n.Pos()), what, src(n))
	os.Exit(1)
}

// sync call classification: x.mutex.Lock(), x.mutex.Unlock(), x.cond.Wait(), x.cond.Broadcast(), verifHook("..")
func syncCall(c *ast.CallExpr) (string, string, bool) {
	if id, ok := c.Fun.(*ast.Ident); ok && id.Name == "verifHook" {
		if len(c.Args) != 1 {
			fail(c, "verifHook arity")
		}
		lit, ok := c.Args[0].(*ast.BasicLit)
		if !ok {
			fail(c, "verifHook argument is not a literal")
		}
		return "Hook", strings.Trim(lit.Value, `"`), true
	}
	sel, ok := c.Fun.(*ast.SelectorExpr)
	if !ok {
		return "", "", false
	}
	inner, ok := sel.X.(*ast.SelectorExpr)
	if !ok {
		return "", "", false
	}
	switch inner.Sel.Name + "." + sel.Sel.Name {
	case "mutex.Lock":
		return "Lock", "", true
	case "mutex.Unlock":
		return "Unlock", "", true
	case "cond.Wait":
		return "Wait", "", true
	case "cond.Broadcast":
		return "Broadcast", "", true
	case "mutex.RLock":
		return "RLock", "", true
	case "mutex.RUnlock":
		return "RUnlock", "", true
	}
	if inner.Sel.Name == "mutex" || inner.Sel.Name == "cond" {
		fail(c, "unknown operation on mutex/cond")
	}
	return "", "", false
}

// expression: sync calls and function literals inside it, in evaluation order
func expr(e ast.Expr) []node {
	var out []node
	ast.Inspect(e, func(n ast.Node) bool {
		switch x := n.(type) {
		case *ast.FuncLit:
			body := block(x.Body.List)
			if significant(body) {
				out = append(out, node{kind: "Func", a: body})
			}
			return false
		case *ast.CallExpr:
			if k, a, ok := syncCall(x); ok {
				out = append(out, node{kind: k, arg: a})
				return false
			}
			if sel, ok := x.Fun.(*ast.SelectorExpr); ok && sel.Sel.Name == "close" && len(x.Args) == 0 {
				if id, ok := sel.X.(*ast.Ident); ok && id.Name == "stream" {
					out = append(out, node{kind: "StreamClose"})
					return false
				}
			}
		}
		return true
	})
	return out
}

func significant(l []node) bool {
	for _, n := range l {
		switch n.kind {
		case "Return", "Break":
		case "If":
			if significant(n.a) || significant(n.b) {
				return true
			}
		default:
			return true
		}
	}
	return false
}

func hasExit(l []node) bool {
	for _, n := range l {
		if n.kind == "Return" || n.kind == "Break" || (n.kind == "If" && (hasExit(n.a) || hasExit(n.b))) {
			return true
		}
	}
	return false
}

func block(stmts []ast.Stmt) []node {
	var out []node
	for _, s := range stmts {
		out = append(out, stmt(s)...)
	}
	return out
}

func stmt(s ast.Stmt) []node {
	switch x := s.(type) {
	case *ast.ExprStmt:
		return expr(x.X)
	case *ast.AssignStmt:
		var out []node
		for _, r := range x.Rhs {
			out = append(out, expr(r)...)
		}
		for _, l := range x.Lhs {
			if sel, ok := l.(*ast.SelectorExpr); ok && sel.Sel.Name == "closed" {
				out = append(out, node{kind: "SetClosed"})
			}
		}
		return out
	case *ast.DeclStmt, *ast.IncDecStmt, *ast.EmptyStmt:
		return nil
	case *ast.DeferStmt:
		if k, _, ok := syncCall(x.Call); ok {
			if k != "Unlock" {
				fail(x, "deferred synchronisation other than Unlock")
			}
			return []node{{kind: "DeferUnlock"}}
		}
		return nil
	case *ast.ReturnStmt:
		var out []node
		for _, r := range x.Results {
			out = append(out, expr(r)...)
		}
		return append(out, node{kind: "Return"})
	case *ast.BranchStmt:
		if x.Tok == token.BREAK && x.Label == nil {
			return []node{{kind: "Break"}}
		}
		if x.Tok == token.CONTINUE && x.Label == nil {
			return nil
		}
		fail(x, "unsupported branch")
	case *ast.BlockStmt:
		return block(x.List)
	case *ast.IfStmt:
		var out []node
		if x.Init != nil {
			out = append(out, stmt(x.Init)...)
		}
		out = append(out, expr(x.Cond)...)
		a := block(x.Body.List)
		var b []node
		if x.Else != nil {
			b = stmt(x.Else)
		}
		if significant(a) || significant(b) || hasExit(a) || hasExit(b) {
			out = append(out, node{kind: "If", arg: src(x.Cond), a: a, b: b})
		}
		return out
	case *ast.ForStmt:
		if x.Init != nil || x.Post != nil {
			body := block(x.Body.List)
			if significant(body) {
				fail(x, "synchronisation inside a counted loop")
			}
			return nil
		}
		body := block(x.Body.List)
		if significant(body) || x.Cond == nil {
			return []node{{kind: "Loop", a: body}}
		}
		return nil
	case *ast.RangeStmt:
		body := block(x.Body.List)
		if significant(body) {
			return []node{{kind: "Range", arg: src(x.X), a: body}}
		}
		return nil
	case *ast.SwitchStmt:
		var out []node
		if x.Init != nil || x.Tag != nil {
			body := block(x.Body.List)
			if significant(body) {
				fail(x, "synchronisation inside a tagged switch")
			}
			return nil
		}
		for _, c := range x.Body.List {
			cc := c.(*ast.CaseClause)
			var conds []string
			for _, e := range cc.List {
				conds = append(conds, src(e))
			}
			body := block(cc.Body)
			if significant(body) || hasExit(body) {
				out = append(out, node{kind: "If", arg: "case " + strings.Join(conds, ", "), a: body})
			}
		}
		return out
	case *ast.TypeSwitchStmt:
		body := block(x.Body.List)
		if significant(body) {
			fail(x, "synchronisation inside a type switch")
		}
		return nil
	case *ast.GoStmt, *ast.SelectStmt, *ast.SendStmt, *ast.LabeledStmt:
		fail(x, "unsupported statement")
	}
	fail(s, "unsupported statement")
	return nil
}

func coq(l []node) string {
	var s []string
	for _, n := range l {
		switch n.kind {
		case "Lock", "Unlock", "DeferUnlock", "Wait", "Broadcast", "Break", "Return", "RLock", "RUnlock", "SetClosed", "StreamClose":
			s = append(s, "S"+n.kind)
		case "Hook":
			s = append(s, fmt.Sprintf("SHook %q", n.arg))
		case "Loop":
			s = append(s, "SLoop "+coq(n.a))
		case "Range":
			s = append(s, fmt.Sprintf("SRange %q %s", n.arg, coq(n.a)))
		case "Func":
			s = append(s, "SFunc "+coq(n.a))
		case "If":
			s = append(s, fmt.Sprintf("SIf \"%s\" %s %s", strings.ReplaceAll(n.arg, `"`, `""`), coq(n.a), coq(n.b)))
		}
	}
	return "[" + strings.Join(s, "; ") + "]"
}

func findFunc(files []*ast.File, recv, name string) *ast.FuncDecl {
	for _, f := range files {
		for _, d := range f.Decls {
			fd, ok := d.(*ast.FuncDecl)
			if !ok || fd.Name.Name != name {
				continue
			}
			r := ""
			if fd.Recv != nil && len(fd.Recv.List) == 1 {
				r = src(fd.Recv.List[0].Type)
			}
			if r == recv {
				return fd
			}
		}
	}
	fmt.Fprintf(os.Stderr, "muxconc-skel: function (%s).%s not found\n", recv, name)
	os.Exit(1)
	return nil
}

// the function literal that contains verifHook(point)
func findLit(fd *ast.FuncDecl, point string) *ast.FuncLit {
	var found *ast.FuncLit
	ast.Inspect(fd, func(n ast.Node) bool {
		lit, ok := n.(*ast.FuncLit)
		if !ok {
			return true
		}
		has := false
		ast.Inspect(lit.Body, func(m ast.Node) bool {
			if c, ok := m.(*ast.CallExpr); ok {
				if k, a, ok := syncCall(c); ok && k == "Hook" && a == point {
					has = true
				}
			}
			return true
		})
		if has {
			found = lit // innermost wins: keep descending
		}
		return true
	})
	if found == nil {
		fmt.Fprintf(os.Stderr, "muxconc-skel: no function literal with hook %q\n", point)
		os.Exit(1)
	}
	return found
}

func main() {
	if len(os.Args) != 3 {
		fmt.Fprintln(os.Stderr, "usage: muxconc-skel <repo> <out.v>")
		os.Exit(2)
	}
	repo, out := os.Args[1], os.Args[2]
	var files []*ast.File
	for _, name := range []string{"muxer.go", "muxer_stream.go", "muxer_server.go"} {
		f, err := parser.ParseFile(fset, filepath.Join(repo, name), nil, 0)
		if err != nil {
			fmt.Fprintln(os.Stderr, "muxconc-skel:", err)
			os.Exit(1)
		}
		files = append(files, f)
	}
	var b strings.Builder
	b.WriteString("(* GENERATED by tools/muxconc from muxer.go, muxer_stream.go, muxer_server.go - do not edit. *)\n")
	b.WriteString("From Coq Require Import List String.\nFrom GoHls Require Import Model.MuxConcSkelIR.\nImport ListNotations.\nLocal Open Scope string_scope.\n\n")
	emit := func(name string, l []node) {
		fmt.Fprintf(&b, "Definition skel_%s : list sk :=\n  %s.\n\n", name, coq(l))
	}
	emit("Close", block(findFunc(files, "*Muxer", "Close").Body.List))
	emit("rotateParts", block(findFunc(files, "*Muxer", "rotateParts").Body.List))
	emit("rotateSegments", block(findFunc(files, "*Muxer", "rotateSegments").Body.List))
	emit("handleMultivariantPlaylist", block(findFunc(files, "*Muxer", "handleMultivariantPlaylist").Body.List))
	emit("handleMediaPlaylist", block(findFunc(files, "*muxerStream", "handleMediaPlaylist").Body.List))
	emit("preloadHint", block(findLit(findFunc(files, "*muxerStream", "rotateParts"), "wait:preload-hint").Body.List))
	emit("serverHandle", block(findFunc(files, "*muxerServer", "handle").Body.List))
	emit("streamClose", block(findFunc(files, "*muxerStream", "close").Body.List))
	if err := os.WriteFile(out, []byte(b.String()), 0o644); err != nil {
		fmt.Fprintln(os.Stderr, "muxconc-skel:", err)
		os.Exit(1)
	}
}
