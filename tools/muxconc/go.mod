module muxconcskel

go 1.21
