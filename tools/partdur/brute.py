#!/usr/bin/env python3
"""Brute-force pre-check of the C19 statements (a TEST used to fix the statements before
proving them in Coq; not part of any proof). Transcribes muxer_segmenter.go arithmetic.
usage: brute.py [grid_ns]   (grid of PartMinDuration values, default 25 ms; 1 = also odd ns values)"""
import sys
from math import gcd

S = 10**9
MS = 10**6


def tq(a, b):  # Go truncating division
    q = abs(a) // abs(b)
    return q if (a >= 0) == (b > 0) else -q


def tr(a, b):
    return a - b * tq(a, b)


def muldiv(v, m, d):
    return tq(v, d) * m + tq(tr(v, d) * m, d)


def ts2dur(t, R):
    return muldiv(t, S, R)


def dur2ts(d, R):
    return muldiv(d, R, S)


def compat(p, sd):
    if sd > p:
        return False
    f = tq(p, sd)
    if tr(p, sd) != 0:
        f += 1
    f *= sd
    return p > tq(f * 85, 100)


def find(pm, sds):
    i = pm
    while i < 5 * S:
        if all(compat(i, sd) for sd in sds):
            break
        i += 5 * MS
    return i


def ceil_ms(d):
    return -(-d // MS) * MS


def run(R, T, pm, segmin, d0, ras, variant_ll=True):
    """ras: list of (ra, pc) per write. returns (segments, cur_parts, pts, errors, adj)"""
    nxt = None
    seg_start = part_start = None
    adj = 0
    freeze = False
    sds = set()
    segs = []       # completed: list of lists of (dur, nsamples)
    cur = []
    ncur = 0
    pt = 0
    errors = 0
    pts = []
    retained = []   # like s.segments (without gaps), bounded by 7 incl. gaps -> emulate count

    def part_target():
        m = 0
        for sg in retained:
            for (d, _) in sg:
                m = max(m, d)
        for (d, _) in cur:
            m = max(m, d)
        return ceil_ms(m)

    def rotate_parts(end):
        nonlocal pt, errors, part_start, ncur
        cur.append((end - part_start, ncur))
        ncur = 0
        part_start = end
        v = part_target()
        if pt == 0:
            pt = v
        elif v != pt:
            errors += 1
            pt = v

    nseg_total = 0
    for k, (ra, pc) in enumerate(ras):
        dts = d0 + k * T + dur2ts(10 * S, R)
        if dts < 0:
            continue
        prev, nxt = nxt, dts
        if prev is None:
            pts.append(pt)
            continue
        duration = nxt - prev
        if seg_start is None:
            seg_start = part_start = ts2dur(prev, R)
        sd = ts2dur(duration, R)
        if not freeze and sd != 0 and sd not in sds:
            sds.add(sd)
            adj = find(pm, sds)
        ncur += 1
        nd = ts2dur(nxt, R)
        if ra and (pc or nd - seg_start >= segmin):
            rotate_parts(nd)
            first = (nseg_total == 0)
            nseg_total += 1
            segs.append(list(cur))
            if first:
                retained.extend([[]] * 7)
            retained.append(list(cur))
            if len(retained) > 7:
                retained.pop(0)
            cur.clear()
            seg_start = nd
            if pc:
                freeze = False
                sds = set()
            else:
                freeze = True
        elif nd - part_start >= adj:
            rotate_parts(nd)
        pts.append(pt)
    return segs, cur, pts, errors, adj


def std_triples():
    out = []
    for fps in range(1, 121):
        out.append(("v%d" % fps, 90000, 90000 // fps))
        if 90000 % fps:
            out.append(("v%d+" % fps, 90000, 90000 // fps + 1))
    for num in (24000, 30000, 60000, 120000, 48000, 25000 * 0 + 15000, 12000):
        t = 90000 * 1001 // num
        out.append(("v%d/1001" % num, 90000, t))
        if (90000 * 1001) % num:
            out.append(("v%d/1001+" % num, 90000, t + 1))
    for r in (96000, 88200, 64000, 48000, 44100, 32000, 24000, 22050, 16000, 12000, 11025, 8000, 7350):
        out.append(("aac%d" % r, r, 1024))
    for t in (120, 240, 480, 960, 1920, 2880):
        out.append(("opus%d" % t, 48000, t))
    return out


def check(R, T, pm, stats):
    sd = ts2dur(T, R)
    adj = find(pm, {sd})
    mx = max(pm, sd)
    bad = []
    if not (adj < 5 * S and adj >= pm and adj >= sd and adj < 2 * mx and compat(adj, sd)):
        bad.append(("adjusted", adj))
    # part cutting: phases. start from phase a (ticks mod R matter only), count samples to reach adj
    g = R // gcd(T * S, R) if True else 0
    # the phase of a*1e9/R repeats with period R/gcd(1e9,R) in a; parts start at multiples of T from d0
    per = R // gcd(S, R)
    counts = set()
    durs = set()
    phases = range(per) if per <= 2000 else list(range(0, per, max(1, per // 2000)))
    for a in phases:
        n = 1
        base = ts2dur(a, R)
        while ts2dur(a + n * T, R) - base < adj:
            n += 1
        counts.add(n)
        durs.add(ts2dur(a + n * T, R) - base)
    if len(counts) != 1:
        bad.append(("count", sorted(counts), adj))
    if max(durs) - min(durs) > 1:
        bad.append(("durs", sorted(durs)))
    D = min(durs)
    Dx = max(durs)
    n = max(counts)
    # final parts: at most n samples (+1 ns)
    PT = ceil_ms(Dx + 0)
    if ceil_ms(D) != ceil_ms(Dx) or ceil_ms(Dx + (1 if (n * T * S) % R else 0)) != PT:
        bad.append(("pt-straddle", D, Dx))
    if not (85 * PT <= 100 * D and Dx <= PT):
        bad.append(("85", D, PT))
    if not (D >= pm and Dx < 2 * mx + sd):
        bad.append(("bounds", D, Dx, pm, sd))
    # text: 10us rounding
    if len(durs) > 1:
        lo, hi = min(durs), max(durs)
        if (lo + 5000) // 10000 != (hi + 5000) // 10000 or lo % 10000 == 5000 or hi % 10000 == 5000:
            bad.append(("text", lo, hi))
    stats["n"] += 1
    return bad


def main():
    grid = int(sys.argv[1]) if len(sys.argv) > 1 else 25 * MS
    stats = {"n": 0}
    nbad = 0
    kinds = {}
    for (name, R, T) in std_triples():
        sd = ts2dur(T, R)
        pms = list(range(50 * MS, 2 * S + 1, grid if grid > 1 else 25 * MS))
        if grid == 1:
            # adversarial off-grid values: floor(x_n)+1 and neighbours
            extra = []
            for n in range(1, 900):
                x = n * T * S // R
                for dlt in (-1, 0, 1, 2):
                    if 50 * MS <= x + dlt <= 2 * S:
                        extra.append(x + dlt)
            pms = sorted(set(pms + extra))
        for pm in pms:
            bad = check(R, T, pm, stats)
            if bad:
                nbad += 1
                for b in bad:
                    kinds[b[0]] = kinds.get(b[0], 0) + 1
                if nbad <= 15:
                    print("BAD", name, "R=%d T=%d sd=%d pm=%d" % (R, T, sd, pm), bad)
    print("triples checked:", stats["n"], "bad:", nbad, kinds)


if __name__ == "__main__":
    main()
