"""C16 tie + search: see ties/_mux.py (shared muxer harness and extracted model)."""
import os
import sys
sys.path.insert(0, os.path.dirname(os.path.abspath(__file__)))
import _mux  # noqa: E402

META = dict(_mux.META_COMMON)


def run(ctx):
    return _mux.run_mux(ctx, "C16")
