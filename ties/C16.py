"""C16 tie + search: see ties/_mux.py (shared muxer harness and extracted model), plus the codec-string leg:
harness/cmd/codecstr calls the real codecparams.Marshal on codec values built from drawn field records and
Tie/CodecStrTie.v (vm_compute) compares every returned string with Model/CodecStr.v."""
import json
import os
import re
import sys
sys.path.insert(0, os.path.dirname(os.path.abspath(__file__)))
import _mux  # noqa: E402
import vlib  # noqa: E402

META = dict(_mux.META_COMMON)
META["coq_targets"] = list(_mux.META_COMMON["coq_targets"]) + ["Tie/CodecStrTie.vo"]
META["trusted_base"] = list(_mux.META_COMMON["trusted_base"]) + [
    "codec strings: hand-written Gallina transcription Model/CodecStr.v of pkg/codecparams/marshal.go over the fields "
    "Marshal reads, tied to /repo by the codec-string leg (harness/cmd/codecstr: real codecparams.Marshal on codec values "
    "whose H265 SPS / AV1 sequence-header bytes are written from drawn fields; the fields are read back with mediacommon's "
    "own parsers, as Marshal does; Tie/CodecStrTie.v by vm_compute). Parsing the parameter bytes (h265.SPS.Unmarshal, "
    "av1.SequenceHeader.Unmarshal, VP9 / MPEG-4 Audio configuration parsing upstream of the codec value) is not modelled: "
    "the parsed fields are the model's input; fmt_int (strconv.FormatInt) is the one of Model/PlaylistBase.v",
]
META["assumptions"] = list(_mux.META_COMMON["assumptions"]) + [
    "codec-string theorems: field values within the ranges of the Go types as the parsers fill them (codec_fields_ok: "
    "profile_space 2 bits, tier 1 bit, profile_idc 5 bits, 32 compatibility flags, level 8 bits; AV1 seq_profile 3 bits, "
    "seq_level_idx 5 bits, bit depth >= 0, chroma_sample_position 2 bits, colour code points 8 bits; VP9 uint8 fields; "
    "SPS bytes; MPEG-4 Audio object type >= 0)",
]

CODECSTR_KINDS = {1: "model string differs from the real Marshal output",
                  2: "real Marshal output rejected by the grammar wf_codec_string"}


def codecstr_leg(ctx, t, only=False):
    """runs the codec-string leg; mismatches are appended to t.mismatches (observable 'codecstr'), counts go to
    t.extra['codecstr'] (a key of the evidence coverage)"""
    leg = {"ran": False}
    t.extra["codecstr"] = leg
    ok, log, binp = vlib.build_harness("codecstr")
    if not ok:
        t.errors.append("go build (codecstr) failed: " + log[-2000:])
        return
    out = os.path.join(ctx["work"], "codecstr")
    vlib.run(["rm", "-rf", out])
    cmd = [binp, "-seed", str(ctx["seed"]), "-tier", ctx["tier"], "-out", out]
    if ctx["replay"]:
        cmd += ["-replay", ctx["replay"]]
    rc, o = vlib.run(cmd, timeout=1200)
    if rc != 0 or not os.path.exists(os.path.join(out, "result.json")):
        t.errors.append("codecstr harness failed: " + o[-2000:])
        return
    r = json.load(open(os.path.join(out, "result.json")))
    leg.update({"ran": True, "evaluations": r["evaluations"], "distinct_nontrivial": r["distinct_nontrivial"],
                "rule": r["rule"], "distribution": r["distribution"], "shards": r["shards"],
                "samples": (r["samples"] or [])[:3], "model_evaluated_by": "not run", "model_mismatches": 0})
    for s in r.get("self_check") or []:
        t.errors.append("codecstr harness self-check: " + s)
    floor = 0 if ctx["replay"] else {"quick": 300, "thorough": 3000}[ctx["tier"]]
    if r["distinct_nontrivial"] < floor:
        t.errors.append("codecstr generator produced %d distinct non-trivial records (floor %d)"
                        % (r["distinct_nontrivial"], floor))
    if not ctx["model_available"]:
        return
    cases = {(c["shard"], c["index"]): c for c in r["cases"]}
    leg["model_evaluated_by"] = "coqc vm_compute (Tie/CodecStrTie.v)"
    found = []
    for res in vlib.eval_shards(out, jobs=8):
        if not res["ok"]:
            t.errors.append("codecstr model evaluation failed on %s: %s" % (res["shard"], res["error"]))
            continue
        shard = int(re.findall(r"(\d+)\.v$", res["shard"])[0])
        raw = res.get("raw", "")
        for idx in res["bad"]:
            c = cases[(shard, idx)]
            m = re.search(r"\(%d(?:%%nat)?\s*,\s*\[([^\]]*)\]" % idx, raw)
            ks = [int(x) for x in re.findall(r"(\d+)%nat", m.group(1))] if m else []
            found.append({"observable": "codecstr", "input": c["input"],
                          "detail": "codec family %s: %s" % (c["what"], "; ".join(CODECSTR_KINDS.get(k, str(k)) for k in ks)
                                                             or "model and real codecparams.Marshal disagree")})
    found.sort(key=lambda m: len(json.dumps(m["input"])))
    leg["model_mismatches"] = len(found)
    t.mismatches += found
    if only:
        t.evaluations = r["evaluations"]
        t.distinct_nontrivial = r["distinct_nontrivial"]
        t.rule = r["rule"]
        t.distribution = r["distribution"]
        t.min_nontrivial = 0


def is_codecstr_replay(path):
    try:
        return json.load(open(path)).get("correspondence") == "tie:C16:codecstr"
    except (OSError, ValueError, AttributeError):
        return False


def run(ctx):
    if ctx["replay"] and is_codecstr_replay(ctx["replay"]):
        t = vlib.Tie()
        codecstr_leg(ctx, t, only=True)
        return t
    t = _mux.run_mux(ctx, "C16")
    if not ctx["replay"] and not ctx["widen"]:
        codecstr_leg(ctx, t)
    return t
