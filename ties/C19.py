"""C19 tie + search: the segmenter's part arithmetic and the real Low-Latency Muxer vs Model/PartDur.v."""
import json
import os
import re
import vlib

META = {
    "coq_targets": ["Tie/PartDurTie.vo"],
    "trusted_base": [
        "hand-written Gallina transcription of multiplyAndDivide, timestampToDuration, durationToTimestamp, partDurationIsCompatible(WithAll), "
        "findCompatiblePartDuration, fmp4AdjustPartDuration, fmp4WriteSample (leading track, Low-Latency), partTargetDuration, rotateParts, "
        "rotateSegments, the part listing of generateMediaPlaylistFMP4 (Model/PartDur.v), tied to /repo by this correspondence run",
        "math.Ceil(float64(ns)/1e6) modelled as exact integer ceiling (exact for part durations below 2^33 ms; compared on every run)",
        "Go harness harness/cmd/partdur (generator, own M3U8 reader, oracle written from the property text, fMP4 sample counting through mediacommon) and lib/vlib.py",
        "/repo/verif_export.go and /repo/verif_export_partdur.go (read-only views, build tag verif)",
    ],
    "assumptions": [
        "no int64 overflow in multiplyAndDivide (model over unbounded Z; generators keep every intermediate product inside int64)",
        "writeSample never fails with 'reached maximum segment size' (small payloads); fMP4 part marshalling succeeds",
        "Muxer.Start defaults (PartMinDuration 200 ms, SegmentMinDuration 1 s, SegmentCount 7) are applied by the harness, not modelled",
        "property theorems: clock rate <= 1 MHz, sample duration in [2.5 ms, 1 s], PartMinDuration in [50 ms, 2 s]; regularity theorems "
        "additionally need c19_side (implied by a whole-millisecond PartMinDuration; decidable, c19_side_decidable) - see the *_refuted theorems; "
        "text equality additionally needs clockRate <= 5000*gcd(200000, clockRate), discharged for the 14 standard clock rates only",
        "oracle signatures end in side-fails / side-holds = the harness's evaluation of c19_side, re-computed by Coq (CSide, code 10); only side-fails irregularities are known findings",
    ],
}


def _case_input(shard_path, idx):
    p = shard_path[:-2] + ".idx"
    try:
        with open(p) as f:
            for i, line in enumerate(f):
                if i == idx:
                    return json.loads(line)
    except OSError:
        pass
    return {"shard": os.path.basename(shard_path), "index": idx}


def run(ctx):
    t = vlib.Tie()
    ok, log, binp = vlib.build_harness("partdur")
    if not ok:
        t.errors.append("go build failed: " + log[-2000:])
        return t
    out = os.path.join(ctx["work"], "run_w" if ctx["widen"] else "run")
    vlib.run(["rm", "-rf", out])
    n = {"quick": 500, "thorough": 6000}[ctx["tier"]]
    npure = {"quick": 100000, "thorough": 1000000}[ctx["tier"]]
    if ctx["widen"]:
        n *= 3
        npure = 1000          # the widened search is about the oracle
    cmd = [binp, "-seed", str(ctx["seed"]), "-tier", ctx["tier"], "-out", out, "-n", str(n), "-npure", str(npure)]
    if ctx["replay"]:
        cmd += ["-replay", ctx["replay"]]
    rc, o = vlib.run(cmd, timeout=3000)
    if rc != 0:
        t.errors.append("harness failed: " + o[-2000:])
        return t
    r = json.load(open(os.path.join(out, "result.json")))
    t.evaluations = r["evaluations"]
    t.distinct_nontrivial = r["distinct_nontrivial"]
    t.rule = r["rule"]
    t.samples = r["samples"] or []
    t.traces = r["traces_validated_against_impl"]
    t.distribution = r["distribution"]
    t.oracle_failures = r["oracle_failures"] or []
    t.errors += (r.get("errors") or [])[:5]
    t.min_nontrivial = 0 if ctx["replay"] else {"quick": 100, "thorough": 1000}[ctx["tier"]]
    if ctx["model_available"] and not ctx["widen"]:
        kinds = {1: "pure-function-result", 2: "completed-segments-parts", 3: "current-segment-parts",
                 4: "adjusted-part-duration-or-freeze", 5: "part-target-trace", 6: "part-duration-changed-reports",
                 7: "retained-segments", 8: "playlist-view", 9: "model-did-not-return-a-state",
                 10: "c19_side-verdict-of-the-harness"}
        for res in vlib.eval_shards(out, jobs=16):
            if not res["ok"]:
                t.errors.append("model evaluation failed on %s: %s" % (res["shard"], res["error"]))
                continue
            raw = res.get("raw", "")
            for idx in res["bad"]:
                codes = []
                m = re.search(r"\(%d(?:%%nat)?\s*,\s*\[([^\]]*)\]" % idx, raw)
                if m:
                    codes = [int(x) for x in re.findall(r"\d+", m.group(1))]
                obsv = "+".join(kinds.get(c, str(c)) for c in codes) or "partdur-observations"
                t.mismatches.append({"observable": obsv, "input": _case_input(res["shard"], idx),
                                     "detail": raw[:500]})
        t.mismatches.sort(key=lambda m: len(json.dumps(m["input"])))
        # disk is limited: the shards (tens of MB in the thorough tier) are only needed to name a
        # mismatching input; keep result.json
        if not t.mismatches and not t.errors:
            import glob
            for f in glob.glob(os.path.join(out, "cases_*")):
                try:
                    os.remove(f)
                except OSError:
                    pass
    return t
