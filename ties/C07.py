"""C07 tie + search: Close with pending requests on the real muxer vs Model/MuxConc*.v."""
import importlib.util
import os

_spec = importlib.util.spec_from_file_location("tie_C06_shared", os.path.join(os.path.dirname(os.path.abspath(__file__)), "C06.py"))
_m = importlib.util.module_from_spec(_spec)
_spec.loader.exec_module(_m)

META = {
    "coq_targets": _m.COQ_TARGETS,
    "trusted_base": _m.TRUSTED + [
        "file removal: the model tracks which segment files exist (created with a segment, removed on eviction and by "
        "stream.close()); the OS side is M1's oracle; the harness checks os.ReadDir(Directory) after Close",
    ],
    "assumptions": [
        "Close is called by the writer goroutine after its last write (one writer); the model's rotations never fail "
        "(Close after a rotation whose init generation failed is a harness-only leg); the path table's RWMutex is not "
        "modelled (VerifServerMutexFree is a harness oracle)",
        "own-step progress is stated from states where the mutex is free (another handler inside its critical section "
        "first needs its own steps) and a writer goroutine that has not panicked; hint_prop (path table) is proved "
        "reachable for all three variants",
    ],
}


def translate():
    """regenerate coq/Generated/MuxConcSkel.v (the synchronisation skeletons) from the source tree"""
    vlib = _m.vlib
    tool = os.path.join(vlib.VERIF, "tools", "muxconc")
    os.makedirs(os.path.join(vlib.WORK, "bin"), exist_ok=True)
    binp = os.path.join(vlib.WORK, "bin", "muxconc-skel")
    with vlib.Lock("go"):
        rc, out = vlib.run(["go", "build", "-o", binp, "."], cwd=tool, env=vlib.go_env(), timeout=600)
    if rc != 0:
        return "go build tools/muxconc failed: " + out[-1500:]
    tmp = os.path.join(vlib.WORK, "MuxConcSkel.v.tmp")
    rc, out = vlib.run([binp, vlib.REPO, tmp], timeout=120)
    if rc != 0:
        return "tools/muxconc: " + out[-1500:]
    dst = os.path.join(vlib.COQ, "Generated", "MuxConcSkel.v")
    new = open(tmp).read()
    old = open(dst).read() if os.path.exists(dst) else ""
    if new != old:
        with vlib.Lock("coq"):
            # written in place (not renamed from the older temporary file): the modification time must be later
            # than any .vo compiled from the previous content, or make would keep a stale .vo
            open(dst, "w").write(new)
            os.remove(tmp)
    return None


def run(ctx):
    return _m.run_muxconc(ctx, "C07", 40)
