"""C10 tie + search: the client's time normalisation (client_time_conv_*.go, client_track*.go,
client_stream_processor_*.go, mediacommon's mpegts.TimeDecoder) vs Model/ClientTime.v."""
import json
import os
import vlib

META = {
    "coq_targets": ["Tie/ClientTimeTie.vo"],
    "trusted_base": [
        "hand-written Gallina transcription of multiplyAndDivide/timestampToDuration, clientTimeConvFMP4, clientTimeConvMPEGTS, "
        "mediacommon's TimeDecoder.Decode, clientTrack.handleData, clientTrackProcessorFMP4.process, the fMP4 and MPEG-TS stream "
        "processors' decision logic (Model/ClientTime.v), tied to /repo by this correspondence run",
        "mediacommon fMP4/MPEG-TS writers and readers, go-astits (which PES is complete when), net/http client, real-time pacing: "
        "oracles / not modelled (the model consumes parsed content in the order mediacommon's Reader emits it)",
        "Go harness harness/cmd/clienttime (generator, stream synthesis, property oracle, canonicalisation) and lib/vlib.py",
        "Coq primitive 63-bit integers (Uint63.to_Z) are used only to write numbers in generated case files",
    ],
    "assumptions": [
        "unbounded integers: int64 overflow of multiplyAndDivide's intermediates (needs timescale products above 2^63/1e9 or base times above 2^40) is outside the model; the harness excludes such arguments",
        "timescales > 0 and base times >= 0 in the stream-level theorems (a zero timescale is a Panic outcome of the model)",
        "pacing (when a unit is delivered) is not modelled; time.Since(startRTC) is an environment input, the 10 s DTS-RTC cap an error outcome",
        "concurrency between stream processors: each processor is a function of the shared converter; which NTP anchor a rendition observes "
        "is an environment input (the tie accepts any anchor the leading stream has set); the shared MPEG-TS decoder is threaded through the "
        "processors in one representative order, c10_mpegts_unwrap(_from) covers every call order with gaps below 2^32 ticks",
        "MPEG-TS units handed over before the leading track's first unit of the first segment are dropped by design (stated in c10_all_delivered_mpegts)",
    ],
}

KINDS = {1: "outcome", 2: "track-count", 3: "unit-count", 4: "pts-dts-payload", 5: "absolute-time",
         6: "tracks", 7: "direct-call"}


def run(ctx):
    t = vlib.Tie()
    ok, log, binp = vlib.build_harness("clienttime")
    if not ok:
        t.errors.append("go build failed: " + log[-2000:])
        return t
    out = os.path.join(ctx["work"], "run_w" if ctx["widen"] else "run")
    vlib.run(["rm", "-rf", out])
    n = {"quick": 260, "thorough": 6000}[ctx["tier"]]
    nd = {"quick": 100000, "thorough": 1000000}[ctx["tier"]]
    cmd = [binp, "-seed", str(ctx["seed"]), "-tier", ctx["tier"], "-out", out]
    if ctx["widen"]:
        n *= 3
        nd = 0
        cmd.append("-nomodel")
    cmd += ["-n", str(n), "-direct", str(nd)]
    if ctx["replay"]:
        cmd += ["-replay", ctx["replay"]]
    rc, o = vlib.run(cmd, timeout=3000)
    if rc != 0:
        t.errors.append("harness failed: " + o[-2000:])
        return t
    r = json.load(open(os.path.join(out, "result.json")))
    t.evaluations = r["evaluations"]
    t.distinct_nontrivial = r["distinct_nontrivial"]
    t.rule = r["rule"]
    t.samples = r["samples"]
    t.traces = r["traces_validated_against_impl"]
    t.distribution = r["distribution"]
    t.oracle_failures = r["oracle_failures"] or []
    for e in (r.get("errors") or [])[:20]:
        t.errors.append("harness: " + e)
    t.min_nontrivial = 0 if ctx["replay"] else 100
    if ctx["model_available"] and not ctx["widen"]:
        e2e_cases = {(c["shard"], c["index"]): c for c in (r.get("e2e_cases") or [])}
        per = r.get("direct_per_shard", 5000)
        ndirect = r.get("direct_cases", 0)
        direct_shards = (ndirect + per - 1) // per
        directs = None
        e2e = None
        for res in vlib.eval_shards(out, jobs=16):
            if not res["ok"]:
                t.errors.append("model evaluation failed on %s: %s" % (res["shard"], res["error"]))
                continue
            shard = int(os.path.basename(res["shard"])[6:-2])
            for idx in res["bad"]:
                if shard < direct_shards:
                    if directs is None:
                        directs = json.load(open(os.path.join(out, "direct.json")))
                    t.mismatches.append({"observable": "direct-call", "input": {"direct": directs[shard * per + idx]},
                                         "detail": res.get("raw", "")[:500]})
                    continue
                c = e2e_cases.get((shard, idx))
                if c is None:
                    t.errors.append("mismatch on unknown case %d/%d" % (shard, idx))
                    continue
                if e2e is None:
                    e2e = json.load(open(os.path.join(out, "e2e.json")))
                t.mismatches.append({"observable": "client-callbacks", "input": {"desc": e2e[str(c["id"])]},
                                     "detail": res.get("raw", "")[:500]})
        t.mismatches.sort(key=lambda m: len(json.dumps(m["input"])))
    if not ctx["replay"] and not ctx["widen"]:
        # drop the bulky per-run files; the replay files carry the inputs that matter
        for f in ("records.json",):
            try:
                os.remove(os.path.join(out, f))
            except OSError:
                pass
    return t
