"""C04 tie + search.

Two parts, merged into one Tie:
  * the sequential part shared with the other muxer properties (ties/_mux.py: harness/cmd/mux drives
    the real Muxer, the extracted Coq model runs on the same histories, observations BETWEEN writes);
  * the last sentence of C04 ("all streams expose the same media sequence numbers and durations at
    the same time"), which is about what a concurrent request can see DURING a write:
      translate  tools/critsec regenerates coq/Generated/MuxCritSec.v (lock skeletons of the rotation
                 code and of the playlist handlers) from the repository being checked;
      P leg      Props/C04.v: atomic_rotation generated = true by computation + the soundness theorem
                 of Proofs/MuxAtomic.v instantiated at it (breaks when the rotation stops being one
                 critical section);
      T leg      the translator's own checks (AST recount of the mutex operations per function, mutex
                 aliasing, generators read the observed fields) and a mutation self-test: skeletons of
                 in-memory mutants of THIS source must all be rejected by the Coq check;
      S leg      harness/cmd/muxatomic: a real Muxer under a writer that rotates as fast as it can and
                 readers that fetch playlists through Muxer.Handle only; sandwich / order oracles."""
import json
import os
import re
import sys
sys.path.insert(0, os.path.dirname(os.path.abspath(__file__)))
import _mux  # noqa: E402
import vlib  # noqa: E402

META = dict(_mux.META_COMMON)
META["coq_targets"] = list(_mux.META_COMMON["coq_targets"]) + ["Proofs/MuxAtomicGen.vo"]
META["trusted_base"] = list(_mux.META_COMMON["trusted_base"]) + [
    "tools/critsec (Go AST translator, go/parser + go/types, ~1100 lines): which statements become which skeleton events "
    "(operations on Muxer.mutex and on its alias muxerStream.mutex, cond.Wait, calls of the per-stream rotation methods = the "
    "muxerStream methods that assign segments / segmentDeleteCount / targetDuration / partTargetDuration / a segment's parts, "
    "copies and reads of those fields, error-returning calls, if err != nil, if !stream.isLeading, range m.streams, for, switch, "
    "defer, return, immediately invoked func literals); functions without any operation on the mutex are reduced to the flat list "
    "of their events; func literals that are registered as handlers are not followed; it exits non-zero on syntax it does not "
    "understand and when its AST recount of mutex operations disagrees with the skeleton",
    "Model/MuxAtomic.v: the semantics given to a skeleton (sequentially consistent interleaving of flat events, sync.Mutex as "
    "free/held, cond.Wait = Unlock then Lock, a per-stream rotation method is one event when its body does not touch the mutex "
    "(checked: lock_free), a stream abstracted to its history of (kind, nextDTS) rotations; that MEDIA-SEQUENCE and the listed "
    "durations are functions of that history is C04's sequential part)",
    "Go harness harness/cmd/muxatomic (stress schedule, sandwich and order oracles over Muxer.Handle responses only)",
]
META["assumptions"] = [a for a in _mux.META_COMMON["assumptions"] if not a.startswith("observations are taken between")] + [
    "sequential part: observations are taken between Write calls; concurrent part: one goroutine calls Write*, any number call Handle",
    "concurrent part: no rotation has returned an error before (after a failed rendition rotation the leading stream is one segment "
    "ahead for good; the theorem's g_failed flag)",
    "the Go scheduler / sync.Mutex are modelled, not verified; handlers of segments, parts and init files do not read the observed fields",
]

GEN = os.path.join(vlib.COQ, "Generated", "MuxCritSec.v")
TOOL = os.path.join(vlib.VERIF, "tools", "critsec")
OUR_SIG = "streams-disagree-at-the-same-time"


def _wdir():
    d = os.path.join(vlib.WORK, "C04", "critsec")
    os.makedirs(d, exist_ok=True)
    return d


def _translate_repo(repo, install=True):
    """run tools/critsec on repo; returns an error string or None. Writes report.json and Mut.v into the work dir and
    (install) coq/Generated/MuxCritSec.v when it changed."""
    os.makedirs(os.path.join(vlib.WORK, "bin"), exist_ok=True)
    binp = os.path.join(vlib.WORK, "bin", "critsec")
    d = _wdir()
    tmp = os.path.join(d, "MuxCritSec.v.new")
    for f in ("report.json", "Mut.v"):
        try:
            os.remove(os.path.join(d, f))
        except OSError:
            pass
    with vlib.Lock("go"):
        rc, out = vlib.run(["go", "build", "-o", binp, "."], cwd=TOOL, env=vlib.go_env(), timeout=600)
    if rc != 0:
        return "go build of tools/critsec failed: " + out[-1500:]
    rc, out = vlib.run([binp, "-repo", ".", "-coq", tmp, "-report", os.path.join(d, "report.json"),
                        "-mutants", os.path.join(d, "Mut.v")], cwd=repo, env=vlib.go_env(), timeout=600)
    if rc != 0:
        return "tools/critsec failed on %s: %s" % (repo, out[-1500:])
    if install:
        new = open(tmp).read()
        old = open(GEN).read() if os.path.exists(GEN) else ""
        if new != old:
            with vlib.Lock("coq"):
                open(GEN, "w").write(new)
    return None


def translate():
    """regenerate coq/Generated/MuxCritSec.v from the repository being checked; returns an error string or None"""
    return _translate_repo(vlib.REPO)


def _restore_shared():
    """a run against a scratch copy (VERIF_REPO) leaves the shared generated file describing that copy: put /repo's back"""
    if vlib._ALT:
        binp = os.path.join(vlib.WORK, "bin", "critsec")
        tmp = os.path.join(_wdir(), "MuxCritSec.v.repo")
        rc, out = vlib.run([binp, "-repo", ".", "-coq", tmp], cwd="/repo", env=vlib.go_env(), timeout=600)
        if rc == 0:
            new = open(tmp).read()
            if new != (open(GEN).read() if os.path.exists(GEN) else ""):
                with vlib.Lock("coq"):
                    open(GEN, "w").write(new)


def _is_ours(replay):
    try:
        return OUR_SIG in json.load(open(replay)).get("signature", "")
    except Exception:
        return False


def _t_leg(t, info, model_available):
    d = _wdir()
    rp = os.path.join(d, "report.json")
    if not os.path.exists(rp):
        err = translate()
        if err or not os.path.exists(rp):
            t.mismatches.append({"observable": "critsec-translator", "input": {"repo": vlib.REPO},
                                 "detail": err or "no report written"})
            return
    r = json.load(open(rp))
    info["writer_entries"] = r["writer_entries"]
    info["reader_entries"] = r["reader_entries"]
    info["rotation_methods"] = r["rotation_methods"]
    info["observed_fields"] = r["observed_fields"]
    info["functions"] = ["%s (%s): lock=%d unlock=%d defer_unlock=%d wait=%d rotations=%d ast_recount=%d" % (
        f["name"], f["class"], f["lock"], f["unlock"], f["defer_unlock"], f["wait"], f["mut"], f["ast_recount_mutex_ops"])
        for f in r["functions"] if f["class"] == "structural" or f["ast_recount_mutex_ops"]]
    info["untranslated_functions_with_mutex_ops"] = r["untranslated_functions_with_mutex_ops"]
    info["translator_notes"] = r["notes"]
    for s in r.get("self_check_failures") or []:
        t.mismatches.append({"observable": "critsec-self-check", "input": {"repo": vlib.REPO}, "detail": s})
    # mutation self-test: every in-memory mutant of this source must be rejected by the Coq check
    mut = os.path.join(d, "Mut.v")
    if model_available and os.path.exists(mut) and r.get("mutants"):
        rc, out = vlib.run(["coqc", "-Q", vlib.COQ, "GoHls", "-w", "-all", "Mut.v"], cwd=d, timeout=600)
        for ext in (".vo", ".vok", ".vos", ".glob"):
            try:
                os.remove(mut[:-2] + ext)
            except OSError:
                pass
        verdicts = re.findall(r'\("([^"]*)",\s*(true|false)\)', " ".join(out.split()))
        info["mutants"] = {n: ("rejected" if v == "false" else "ACCEPTED") for n, v in verdicts}
        if rc != 0 or len(verdicts) != len(r["mutants"]):
            t.errors.append("mutation self-test of tools/critsec could not be evaluated: " + out[-1500:])
        for n, v in verdicts:
            if v == "true":
                t.mismatches.append({"observable": "critsec-mutant-accepted", "input": {"mutant": n},
                                     "detail": "the skeleton of this in-memory mutant of the source passes atomic_rotation"})
        t.evaluations += len(verdicts)
    else:
        info["mutants"] = "not evaluated (%s)" % ("no applicable mutant: the source does not have the expected shape"
                                                  if model_available else "Coq build failed")
    if not model_available and os.path.exists(os.path.join(vlib.COQ, "Generated", "MuxCritSec.vo")):
        # the proof leg broke: say which entry of the regenerated skeleton the check rejects
        diag = os.path.join(d, "Diag.v")
        open(diag, "w").write(
            "From Coq Require Import List String.\nFrom GoHls Require Import Model.MuxAtomic Generated.MuxCritSec.\n"
            "Definition V := Eval vm_compute in (map (fun f => (f, writer_entry_ok generated f)) (sk_writer generated) ++ "
            "map (fun f => (f, reader_entry_ok generated f)) (sk_readers generated) ++ "
            "map (fun f => (f, mutator_ok generated f)) (sk_mutators generated)).\nPrint V.\n")
        rc, out = vlib.run(["coqc", "-Q", vlib.COQ, "GoHls", "-w", "-all", "Diag.v"], cwd=d, timeout=300)
        for ext in (".vo", ".vok", ".vos", ".glob"):
            try:
                os.remove(diag[:-2] + ext)
            except OSError:
                pass
        if rc == 0:
            info["entry_verdicts"] = {n: ("accepted" if v == "true" else "REJECTED")
                                      for n, v in re.findall(r'\("([^"]*)",\s*(true|false)\)', " ".join(out.split()))}


def _s_leg(t, ctx, info):
    ok, log, binp = vlib.build_harness("muxatomic")
    if not ok:
        t.errors.append("go build of harness/cmd/muxatomic failed: " + log[-2000:])
        return
    out = os.path.join(ctx["work"], "atomic_w" if ctx["widen"] else "atomic")
    vlib.run(["rm", "-rf", out])
    cmd = [binp, "-seed", str(ctx["seed"]), "-tier", ctx["tier"], "-out", out]
    if ctx["widen"]:
        cmd.append("-widen")
    if ctx["replay"]:
        cmd += ["-replay", ctx["replay"]]
    rc, o = vlib.run(cmd, timeout=3000)
    if rc != 0:
        t.errors.append("muxatomic harness failed: " + o[-2000:])
        return
    r = json.load(open(os.path.join(out, "result.json")))
    t.evaluations += r["evaluations"]
    t.distinct_nontrivial += r["distinct_nontrivial"]
    t.rule = (t.rule + "; " if t.rule else "") + r["rule"]
    t.samples = (t.samples or []) + (r["samples"] or [])[:1]
    for k, v in (r["distribution"] or {}).items():
        t.distribution["atomic:" + k] = v
    t.oracle_failures += r["oracle_failures"] or []
    t.errors += r.get("infra_errors") or []
    info["search"] = {k: r[k] for k in ("scenarios", "segment_rotations", "requests", "conclusive_sandwiches", "seconds")}
    if not ctx["replay"] and r["distinct_nontrivial"] < 2:
        t.errors.append("muxatomic: only %d scenarios produced rotations and conclusive sandwiches" % r["distinct_nontrivial"])


def run(ctx):
    ours = bool(ctx["replay"]) and _is_ours(ctx["replay"])
    if ours:
        t = vlib.Tie()
        t.min_nontrivial = 0
    else:
        t = _mux.run_mux(ctx, "C04")
    info = {}
    if not ctx["widen"] and not ctx["replay"]:
        _t_leg(t, info, ctx["model_available"])
    if ours or not ctx["replay"]:
        _s_leg(t, ctx, info)
    t.extra["atomic_rotation"] = info
    _restore_shared()
    return t
