"""C12 tie + search: client lifecycle (client.go, client_routine_pool.go, blocking points of every
client*.go) vs Model/ClientLife.v over the generated table Generated/ClientLifeBlockOps.v."""
import json
import os
import vlib

GEN = os.path.join(vlib.COQ, "Generated", "ClientLifeBlockOps.v")
TOOL = os.path.join(vlib.VERIF, "tools", "clientlife")

META = {
    "coq_targets": ["Tie/ClientLifeTie.vo", "Proofs/ClientLifeTable.vo"],
    "trusted_base": [
        "translator tools/clientlife (go/parser + go/types over /repo, ~900 lines): which operations it recognises as blocking "
        "(select, channel send/receive, range over a channel, cond.Wait, wg.Wait, http.Client.Do, io.ReadAll, io.Reader.Read, time.Sleep, "
        "mutex Lock); it exits non-zero on syntax it does not understand",
        "hand-written process-network skeleton Model/ClientLife.v (run thread, pool wrapper, runnables as sequences of table operations), "
        "tied to /repo by the generated table (all_cancellable, skeletons of run/runInner/pool compared by vm_compute) and by the trace replay of this run",
        "Go harness harness/cmd/clientlife (stub RoundTripper, goroutine-dump leak oracle, scenario enumeration) and lib/vlib.py",
        "Go runtime: select proceeds when a case is ready, context cancellation closes Done(), sync.WaitGroup, buffered channel of capacity 1",
    ],
    "assumptions": [
        "net/http: http.Client.Do and reads of the response body return when the request context is cancelled (Section hypothesis http_honours_ctx; "
        "the harness' stub transport implements it, the real net/http transport is not exercised)",
        "code between blocking operations terminates: after the pool context is cancelled the runnables' own code performs at most F further actions "
        "(parameter F of init; theorems hold for every F); user callbacks return",
        "unbuffered channels between runnables are over-approximated (an operation with a non-cancellation alternative may complete at any time)",
        "which answers are HTTP failures is what the code does today: a playlist request accepts only 200, an init / segment / part request accepts "
        "200 and 206 (ranged requests); every other status (2xx and 3xx included, with or without a body) must surface as 'bad status code: N' "
        "(harness: statusAccepted); redirects are not followed by the stub transport",
        "mutex critical sections contain no blocking operation (checked on the table: locks_ok) and are therefore part of the terminating code",
    ],
}


def translate():
    """regenerate coq/Generated/ClientLifeBlockOps.v from vlib.REPO; returns an error string or None"""
    os.makedirs(os.path.join(vlib.WORK, "bin"), exist_ok=True)
    binp = os.path.join(vlib.WORK, "bin", "clientlife_translator")
    with vlib.Lock("go"):
        rc, out = vlib.run(["go", "build", "-o", binp, "."], cwd=TOOL, env=vlib.go_env(), timeout=600)
    if rc != 0:
        return "go build of tools/clientlife failed: " + out[-1500:]
    tmp = GEN + ".tmp.%d" % os.getpid()
    rc, out = vlib.run([binp, vlib.REPO, tmp], env=vlib.go_env(), timeout=600)
    if rc != 0:
        try:
            os.remove(tmp)
        except OSError:
            pass
        return "tools/clientlife failed on %s: %s" % (vlib.REPO, out[-1500:])
    with vlib.Lock("coq"):
        new = open(tmp).read()
        old = open(GEN).read() if os.path.exists(GEN) else None
        if new != old:
            # written in place (not renamed from the older temporary file): the modification time must be later
            # than any .vo compiled from the previous content, or make would keep a stale .vo
            open(GEN, "w").write(new)
        os.remove(tmp)
    return None


def run(ctx):
    t = vlib.Tie()
    ok, log, binp = vlib.build_harness("clientlife")
    if not ok:
        t.errors.append("go build failed: " + log[-2000:])
        return t
    out = os.path.join(ctx["work"], "run_w" if ctx["widen"] else "run")
    vlib.run(["rm", "-rf", out])
    cmd = [binp, "-seed", str(ctx["seed"]), "-tier", ctx["tier"], "-out", out]
    if ctx["widen"]:
        cmd.append("-widen")
    if ctx["replay"]:
        cmd += ["-replay", ctx["replay"]]
    rc, o = vlib.run(cmd, timeout=3000)
    if rc != 0:
        t.errors.append("harness failed: " + o[-2000:])
        return t
    r = json.load(open(os.path.join(out, "result.json")))
    t.evaluations = r["evaluations"]
    t.distinct_nontrivial = r["distinct_nontrivial"]
    t.rule = r["rule"]
    t.samples = r["samples"]
    t.traces = r["traces_validated_against_impl"]
    t.distribution = r["distribution"]
    t.oracle_failures = r["oracle_failures"] or []
    for e in r.get("infra_errors") or []:
        t.errors.append(e)
    t.min_nontrivial = 0 if ctx["replay"] else 150
    if ctx["model_available"] and not ctx["widen"]:
        kinds = {1: "model rejects an observed event", 2: "observed result not predicted by the model",
                 3: "model cannot complete the observed decision", 4: "no result observed although the model has one enabled"}
        for res in vlib.eval_shards(out):
            if not res["ok"]:
                t.errors.append("model evaluation failed on %s: %s" % (res["shard"], res["error"]))
                continue
            shard = int(os.path.basename(res["shard"])[6:-2])
            for idx in res["bad"]:
                c = [c for c in r["cases"] if c["shard"] == shard and c["index"] == idx][0]
                t.mismatches.append({"observable": "wait-result-class", "input": c["scenario"],
                                     "detail": "trace=%s result=%s codes=%s (%s)" % (
                                         c["trace"], c["result"], res.get("raw", "")[:300], kinds)})
    return t
