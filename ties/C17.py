"""C17 tie + search: pkg/storage RAM and disk backends vs Model/Storage.v."""
import json
import os
import vlib

META = {
    "coq_targets": ["Tie/StorageTie.vo"],
    "trusted_base": [
        "hand-written Gallina transcription of pkg/storage and seekablebuffer.Buffer (Model/Storage.v), tied to /repo by this correspondence run",
        "OS oracle: POSIX pwrite zero-fills holes, Truncate pads/cuts, unlinked files stay readable through open descriptors",
        "Go harness harness/cmd/storage (generator, byte-slice oracle, canonicalisation) and lib/vlib.py",
    ],
    "assumptions": [
        "one Writer() per part; Write/Seek only on the most recently allocated part; one Finalize; readers opened on completed parts (wf_ops)",
        "disk Write/Seek/Truncate succeed (no I/O error injection)",
    ],
}


def run(ctx):
    t = vlib.Tie()
    ok, log, binp = vlib.build_harness("storage")
    if not ok:
        t.errors.append("go build failed: " + log[-2000:])
        return t
    out = os.path.join(ctx["work"], "run_w" if ctx["widen"] else "run")
    vlib.run(["rm", "-rf", out])
    n = {"quick": 1200, "thorough": 12000}[ctx["tier"]]
    if ctx["widen"]:
        n *= 3
    cmd = [binp, "-seed", str(ctx["seed"]), "-tier", ctx["tier"], "-out", out, "-n", str(n)]
    if ctx["replay"]:
        cmd += ["-replay", ctx["replay"]]
    rc, o = vlib.run(cmd, timeout=1800)
    if rc != 0:
        t.errors.append("harness failed: " + o[-2000:])
        return t
    r = json.load(open(os.path.join(out, "result.json")))
    t.evaluations = r["evaluations"]
    t.distinct_nontrivial = r["distinct_nontrivial"]
    t.rule = r["rule"]
    t.samples = r["samples"]
    t.traces = r["traces_validated_against_impl"]
    t.distribution = r["distribution"]
    t.oracle_failures = r["oracle_failures"] or []
    t.min_nontrivial = 0 if ctx["replay"] else 50
    if ctx["model_available"] and not ctx["widen"]:
        kinds = {1: "generator-wf", 2: "ram-observations", 3: "disk-observations", 4: "disk-file-bytes"}
        for res in vlib.eval_shards(out):
            if not res["ok"]:
                t.errors.append("model evaluation failed on %s: %s" % (res["shard"], res["error"]))
                continue
            shard = int(os.path.basename(res["shard"])[6:-2])
            for idx in res["bad"]:
                c = [c for c in r["cases"] if c["shard"] == shard and c["index"] == idx][0]
                t.mismatches.append({"observable": "storage-observations", "input": {"ops": c["ops"]},
                                     "detail": res.get("raw", "")[:500]})
        t.mismatches.sort(key=lambda m: len(m["input"]["ops"]))
    return t
