"""C14 tie + search: pkg/playlist Marshal/Unmarshal round trip vs Model/Playlist.v."""
import json
import os
import re
import vlib

PROP = "C14"

META = {
    "coq_targets": ["Tie/PlaylistTie.vo"],
    "trusted_base": [
        "hand-written Gallina transcription of pkg/playlist and pkg/playlist/primitives (Model/PlaylistBase.v, Model/Playlist.v), tied to /repo by this correspondence run",
        "scalar oracles: strconv.FormatFloat/ParseFloat (durations, frame rates) and time.Format/Parse are specified by the envelope oracle_ok (Model/PlaylistSpec.v); the executable instance Model/PlaylistOracle.v (Coq primitive floats = binary64) is compared with the Go functions on every run through the Marshal/Unmarshal cases",
        "Go harness harness/cmd/playlist (generator, field-by-field oracle, independent M3U8 reader, syntactic variants, shrinker) and lib/vlib.py",
    ],
    "assumptions": [
        "playlist values without nil elements inside slices; Unmarshal on a fresh receiver",
        "valid value = wf_media / wf_multivariant of Model/PlaylistSpec.v (documented field requirements, strings free of CR/LF and of the quote or comma that delimits them, integers in [0,2^31) resp. [0,2^64), required durations non-zero at 10 us resolution, |durations| < 2^62 ns, years 0..9999, zone offsets in whole minutes, EXT-X-KEY sticky, EXT-X-SERVER-CONTROL with at least one attribute, byte-range start only with a length)",
    ],
}

KINDS = {1: "marshal-bytes", 2: "Media.Unmarshal", 3: "Multivariant.Unmarshal", 4: "playlist.Unmarshal",
         5: "model-panic-or-out-of-fuel", 6: "strict-grammar-vs-go-checker",
         7: "c15_grammar-prediction-on-real-marshal-output"}


def run_playlist(ctx, prop, floor):
    t = vlib.Tie()
    ok, log, binp = vlib.build_harness("playlist")
    if not ok:
        t.errors.append("go build failed: " + log[-2000:])
        return t
    out = os.path.join(ctx["work"], "run_w" if ctx["widen"] else "run")
    vlib.run(["rm", "-rf", out])
    cmd = [binp, "-prop", prop, "-seed", str(ctx["seed"]), "-tier", ctx["tier"], "-out", out, "-repo", vlib.REPO]
    if ctx["widen"]:
        cmd += ["-scale", "3"]
    if ctx["replay"]:
        cmd += ["-replay", ctx["replay"]]
    env = dict(os.environ, TZ="UTC")
    rc, o = vlib.run(cmd, timeout=3000, env=env)
    if rc != 0:
        t.errors.append("harness failed: " + o[-2000:])
        return t
    r = json.load(open(os.path.join(out, "result.json")))
    t.evaluations = r["evaluations"]
    t.distinct_nontrivial = r["distinct_nontrivial"]
    t.rule = r["rule"]
    t.samples = r["samples"] or []
    t.traces = r["traces_validated_against_impl"]
    t.distribution = r["distribution"]
    t.extra["subset_coverage"] = r["subset_coverage"]
    t.extra["skipped_outside_scalar_class"] = r["skipped_outside_scalar_class"]
    t.extra["oracle_failure_count_before_dedup"] = r["oracle_failure_count"]
    t.oracle_failures = [{"signature": f["signature"], "what": f["what"], "input": f["input"]}
                         for f in (r["oracle_failures"] or [])]
    t.min_nontrivial = 0 if ctx["replay"] else floor
    t.extra["oracle_envelope_checked_on_real_functions"] = r.get("envelope_checked", 0)
    for f in r.get("envelope_failures") or []:
        t.errors.append("oracle envelope (oracle_ok) violated by the real Go functions: " + f)
    if not r["subset_coverage_complete"]:
        t.errors.append("generator did not enumerate every subset of optional fields: %s" % r["subset_coverage"])
    if ctx["model_available"] and not ctx["widen"]:
        cases = {(c["shard"], c["index"]): c for c in r["cases"]}
        for res in vlib.eval_shards(out, jobs=14):
            if not res["ok"]:
                t.errors.append("model evaluation failed on %s: %s" % (res["shard"], res["error"]))
                continue
            shard = int(os.path.basename(res["shard"])[6:-2])
            raw = res.get("raw", "")
            for idx in res["bad"]:
                c = cases[(shard, idx)]
                m = re.search(r"\(%d(?:%%nat)?\s*,\s*\[([^\]]*)\]" % idx, raw)
                ks = [int(x) for x in re.findall(r"\d+", m.group(1))] if m else []
                t.mismatches.append({"observable": "+".join(KINDS.get(k, str(k)) for k in ks) or c["what"],
                                     "input": c["input"], "detail": c["what"]})
        t.mismatches.sort(key=lambda m: len(json.dumps(m["input"])))
    return t


def run(ctx):
    return run_playlist(ctx, PROP, 1500 if ctx["tier"] == "quick" else 15000)
