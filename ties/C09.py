"""C09 tie + search: real gohlslib.Muxer / gohlslib.Client pairs (writer paced in real time, client over an
in-process transport calling Muxer.Handle) vs the composition of Model/Mux.v, Model/ClientContent.v and
Model/ClientTime.v through Model/E2E.v."""
import json
import os
import re
import vlib

META = {
    "coq_targets": ["Tie/E2ETie.vo"],
    "trusted_base": [
        "the three hand-written models this property composes (Model/Mux.v tied by C01-C05/C16's run, Model/ClientContent.v by C13's, "
        "Model/ClientTime.v by C10's) and the thin layer Model/E2E.v (codec-string prefixes of codecparams.Marshal, ToFMP4/ToMPEGTS, the "
        "Name/Language/IsDefault copy of the fMP4 stream processor, the skip of trackless fMP4 segments / parts (client_view), "
        "record conversions), tied to /repo by this correspondence run",
        "byte level as oracles: mediacommon fMP4 / MPEG-TS writers and readers, go-astits, the text of the playlists (pkg/playlist Marshal / "
        "Unmarshal; the case builder reads the served playlists with the library's own decoder and the property oracle reads index.m3u8 "
        "with a 40-line reader of its own), net/http client, httptest.ResponseRecorder",
        "Go harness harness/cmd/e2e (generator, concretisation of access units copied from harness/cmd/mux, pair runner, property oracle, "
        "case builder) and lib/vlib.py; Coq primitive 63-bit integers only to write numbers in generated case files",
    ],
    "assumptions": [
        "which segments / parts a live client downloads depends on wall-clock scheduling: it is an input of c09_units_* and of the tie "
        "(the request log of the in-process transport), not a conclusion",
        "c09_units_*_partial start from the muxer's segment / part / sample records; that these hold exactly the accepted written units "
        "(decode time = written dts + 10 s x rate, duration = next dts - dts) is C01's accounting statement: since round 10 a theorem about "
        "the same muxer model (c01_history_accounting / c01_mpegts_history_accounting in Props/C01.v), not re-stated here; end to end it is "
        "also judged by this check's oracle",
        "oracle-only legs (the E2E model carries no codec parameters and no notion of a held callback): reported codec parameters against the "
        "muxer's parameter timeline - parameter sets sent ahead of their key frame count as the muxer's from that key frame on -, and lagging "
        "clients on muxers with SegmentCount 3-5 (delivered units must be a contiguous run of the written ones)",
        "Track.ClockRate equals the codec's fMP4 time scale (90000 video, sample rate for MPEG-4 Audio, 48000 Opus), as in every example "
        "of the README; with another ClockRate the init's time scale and the sample times disagree (outside the generator)",
        "half of the H264 tracks (all three variants) have picture reordering (B pictures): the written DTS of every unit is what the "
        "generator's own instance of mediacommon's h264.DTSExtractor returns for the concrete access unit, as for H265",
        "histories contain no unit the muxer drops in mid-stream (H264 access units without slices, units before -10 s); streams are "
        "3-7 s of media, segments 0.5-1 s (one pair in eight 0.1-0.4 s: these rounded to TARGETDURATION:0 before fix 69594d6 and play now)",
        "a client whose FIRST downloaded body carries no data of a track cannot start (MPEG-TS: audio configuration unknown, finding "
        "C09:mpegts:tracks:not-reported:first-segment-without-data-of:*; fMP4 rendition playlist: no base time, finding "
        "C09:*:client-abort:first-body-without-tracks:rendition-playlist): both signatures are raised only after the cause was verified "
        "on the bytes the transport served",
        "'the same codec parameters' (fMP4 variants) is judged against the muxer's parameter timeline: the set reported in OnTracks must "
        "be one the muxer's Track.Codec held between the write of the first unit of the first part / segment of that track the client "
        "downloaded and the moment the client had the init (whichever came first); an older set (an init that did not follow a "
        "parameter change) is C09:*:tracks:codec-parameters:*:stale-init - with the suffix :forced-segment-still-open (finding F27) "
        "exactly when, in Low-Latency, the leading stream rotated during the write of the change and the write that closed that "
        "segment had not completed when the client's init request started (VerifSnapshot after every write, completed-writes counter on "
        "every request); one pair in five has parameter changes of single sets, half of "
        "them with the client attached after the changes",
        "AbsoluteTime is compared with the NTP written with the unit itself: the harness writes ntp = base + dts/rate for every unit, "
        "so this equals 'NTP of the first unit of the segment + DTS distance' for any anchor; tolerance 1 ms + 2 ticks (+0.32 ms LL)",
    ],
}

CODES = {1: "codec-string/checkSupport", 2: "reported-tracks (client_plan)", 3: "normalised-time (offset cancels)",
         11: "client-model: no model run", 13: "client-model: callback not predicted", 14: "client-model: pts/dts/payload",
         15: "client-model: AbsoluteTime", 16: "client-model: tracks"}


def run(ctx):
    t = vlib.Tie()
    ok, log, binp = vlib.build_harness("e2e")
    if not ok:
        t.errors.append("go build failed: " + log[-2000:])
        return t
    out = os.path.join(ctx["work"], "run_w" if ctx["widen"] else "run")
    vlib.run(["rm", "-rf", out])
    n = {"quick": 150, "thorough": 3000}[ctx["tier"]]
    conc = {"quick": 90, "thorough": 150}[ctx["tier"]]
    if os.environ.get("VERIF_C09_N"):
        n = int(os.environ["VERIF_C09_N"])
    cmd = [binp, "-seed", str(ctx["seed"]), "-out", out]
    if ctx["widen"]:
        n *= 3
        cmd.append("-nomodel")
    cmd += ["-n", str(n), "-conc", str(conc)]
    if ctx["replay"]:
        cmd += ["-replay", ctx["replay"]]
    rc, o = vlib.run(cmd, timeout=6000)
    if rc != 0:
        t.errors.append("harness failed: " + o[-2000:])
        return t
    r = json.load(open(os.path.join(out, "result.json")))
    t.evaluations = r["evaluations"]
    t.distinct_nontrivial = r["distinct_nontrivial"]
    t.rule = r["rule"]
    t.samples = r["samples"] or []
    t.traces = r["traces_validated_against_impl"]
    t.distribution = r["distribution"]
    t.oracle_failures = r["oracle_failures"] or []
    for e in (r.get("errors") or [])[:20]:
        t.errors.append("harness: " + e)
    t.extra["units_checked"] = r["units_checked"]
    t.extra["pts_checked"] = r["pts_checked"]
    t.extra["absolute_times_checked"] = r["abs_checked"]
    t.extra["observations_not_demanded_by_the_text"] = (r.get("observations") or [])[:10]
    t.extra["case_files_skipped"] = r.get("skipped") or {}
    t.min_nontrivial = 0 if ctx["replay"] else {"quick": 60, "thorough": 1000}[ctx["tier"]]
    if os.environ.get("VERIF_C09_N"):
        t.min_nontrivial = 0
    if ctx["model_available"] and not ctx["widen"]:
        cases = {(c["shard"], c["index"]): c for c in (r.get("cases") or [])}
        kinds = {}
        for c in cases.values():
            kinds[c["kind"]] = kinds.get(c["kind"], 0) + 1
        t.extra["model_cases"] = kinds
        for res in vlib.eval_shards(out, jobs=16):
            if not res["ok"]:
                t.errors.append("model evaluation failed on %s: %s" % (res["shard"], res["error"]))
                continue
            shard = int(os.path.basename(res["shard"])[6:-2])
            reasons = {int(i): [int(x) for x in re.findall(r"\d+", body)]
                       for i, body in re.findall(r"\((\d+)(?:%nat)?\s*,\s*\[([^\]]*)\]\)", res.get("raw", ""))}
            for idx in res["bad"]:
                c = cases.get((shard, idx))
                if c is None:
                    t.errors.append("mismatch on unknown case %d/%d" % (shard, idx))
                    continue
                codes = reasons.get(idx, [])
                t.mismatches.append({"observable": c["kind"] + ":" + "+".join(CODES.get(k, str(k)) for k in codes),
                                     "input": {"case": c, "seed": ctx["seed"]},
                                     "detail": "shard %d case %d (%s): codes %s" % (shard, idx, c.get("what", ""), codes)})
    if not ctx["replay"] and not ctx["widen"]:
        pass
    return t
