"""Shared tie for the muxer properties C01-C05, C16, C18: one harness (harness/cmd/mux) drives the
real Muxer, the extracted Coq model (coq/extract) is run on the same abstract histories, the two
traces are compared line by line; each property reports only its own oracle and its own projection
of the trace."""
import json
import os
import vlib

EXTRACT = os.path.join(vlib.COQ, "extract")


def build_model():
    """extract Model/Mux.v + Tie/MuxTie.v to OCaml and compile the driver; returns (ok, log, path)"""
    binp = os.path.join(vlib.WORK, "bin", "muxmodel")
    deps = [os.path.join(vlib.COQ, "Model", "Mux.vo"), os.path.join(vlib.COQ, "Tie", "MuxTie.vo"),
            os.path.join(EXTRACT, "MuxExtract.v"), os.path.join(EXTRACT, "muxdriver.ml")]
    if not all(os.path.exists(d) for d in deps[:2]):
        return False, "model .vo files missing (Coq build failed)", binp
    if os.path.exists(binp) and all(os.path.getmtime(binp) >= os.path.getmtime(d) for d in deps):
        return True, "", binp
    with vlib.Lock("extract"):
        os.makedirs(os.path.dirname(binp), exist_ok=True)
        rc, out = vlib.run(["coqc", "-Q", "..", "GoHls", "MuxExtract.v"], cwd=EXTRACT, timeout=900)
        if rc != 0:
            return False, out, binp
        rc, out2 = vlib.run(["ocamlfind", "ocamlopt", "-O3", "-package", "str", "muxmodel.mli", "muxmodel.ml",
                             "muxdriver.ml", "-o", binp], cwd=EXTRACT, timeout=900)
        for f in os.listdir(EXTRACT):
            if f.endswith((".cmi", ".cmx", ".o", ".vo", ".vok", ".vos", ".glob")) or f.startswith("."):
                try:
                    os.remove(os.path.join(EXTRACT, f))
                except OSError:
                    pass
        return rc == 0, out + out2, binp


META_COMMON = {
    "coq_targets": ["Tie/MuxTie.vo"],
    "trusted_base": [
        "hand-written Gallina transcription of the muxer (Model/Mux.v: Start, write* front ends after byte parsing, fmp4WriteSample, rotateParts/rotateSegments, playlist generation, path table), tied to /repo by this correspondence run",
        "extraction to OCaml for the correspondence run: ExtrOcamlBasic only (bool, option, unit, list, prod, sumbool mapped to OCaml's own types); Z / positive / nat stay Coq's inductive types; coq/extract/muxdriver.ml parses the histories and prints the trace",
        "oracles: fMP4 / MPEG-TS byte encoding (mediacommon, go-astits), SPS / sequence-header parsing, H264 and H265 DTS extraction (mediacommon's DTSExtractor: the harness runs its own instance over the concrete access units and takes the abstract dts of a unit to be what it returns; H264 streams use pic_order_cnt_type 2 (dts = pts) and pic_order_cnt_type 0 with B pictures (dts < pts)), storage (C17), net/http plumbing",
        "Go harness harness/cmd/mux: generator, concretisation of abstract access units into real NALUs / AUs / Opus packets, independent M3U8 reader and MPEG-TS demuxer, property oracles; lib/vlib.py",
        "search-only legs outside the model (no T leg; they only add histories on which oracles that read playlists, snapshots and response bytes run): storage faults through the VerifWrapStorage hook (C18 retention, C04 playlist history), init-file regeneration failures from a malformed in-band SPS (C04 playlist history), requests overlapping the writer on one P - runtime.GOMAXPROCS(1), the wait:preload-hint yield point, a ResponseWriter that blocks in Write, a 20 s watchdog per wait (C05 same bytes / fragment sequence number)",
    ],
    "assumptions": [
        "all six codecs are concretised by the harness (H264/H265 parameter sets and slices, VP9 frame headers, AV1 OBUs built from the specs and self-checked against mediacommon's parsers at start-up); H264 and H265 DTS extraction is exercised with reordering, the abstract dts is what the real extractor returns (units it rejects are not generated)",
        "Track.ClockRate equals the init timescale of the codec (the documented usage; DESIGN.md 12.3, observation O4): video tracks of the fMP4 variants always run at 90 kHz, MPEG-TS video tracks (no init, the segmenter rescales to 90 kHz) also at 1 MHz, 10 MHz and 1 GHz",
        "observations are taken between Write calls (one writer; the concurrent layer is C06-C08)",
    ],
}


def run_mux(ctx, prop, min_nontrivial=40):
    t = vlib.Tie()
    ok, log, binp = vlib.build_harness("mux")
    if not ok:
        t.errors.append("go build failed: " + log[-2000:])
        return t
    model = ""
    if ctx["model_available"]:
        mok, mlog, mbin = build_model()
        if mok:
            model = mbin
        else:
            t.errors.append("model extraction / OCaml build failed: " + mlog[-2000:])
    out = os.path.join(ctx["work"], "run_w" if ctx["widen"] else "run")
    vlib.run(["rm", "-rf", out])
    n = {"quick": 260, "thorough": 4000}[ctx["tier"]]
    if ctx["widen"]:
        n *= 3
    cmd = [binp, "-seed", str(ctx["seed"]), "-tier", ctx["tier"], "-out", out, "-n", str(n), "-prop", prop,
           "-corpus", os.path.join(vlib.VERIF, "corpus", "mux")]
    if model and not ctx["widen"]:
        cmd += ["-model", model]
    if ctx["replay"]:
        cmd += ["-replay", ctx["replay"]]
    rc, o = vlib.run(cmd, timeout=3000)
    if rc != 0:
        t.errors.append("harness failed: " + o[-3000:])
        return t
    if not os.path.exists(os.path.join(out, "result.json")):
        t.errors.append("harness wrote no result.json; its output: " + o[-3000:])
        return t
    r = json.load(open(os.path.join(out, "result.json")))
    t.evaluations = r["evaluations"]
    t.distinct_nontrivial = r["distinct_nontrivial"]
    t.rule = r["rule"]
    t.samples = r["samples"] or []
    t.traces = r["traces_validated_against_impl"]
    t.distribution = r["distribution"]
    t.oracle_failures = [{"signature": f["signature"], "what": f["what"], "input": f["input"]}
                         for f in (r["oracle_failures"] or [])]
    t.mismatches = [{"observable": m["observable"], "input": m["input"], "detail": m["detail"]}
                    for m in (r["mismatches"] or [])]
    t.extra["model_evaluated_by"] = "extracted OCaml (coq/extract)" if r.get("model_ran") else "not run"
    t.min_nontrivial = 0 if ctx["replay"] else min_nontrivial
    return t
