"""C08 tie + search: the access table is regenerated from the Go source (tools/lockset) and
checked completely in Coq; a -race stress of the real Muxer (harness/cmd/race) is the search,
and every race it observes must be an unsafe pair of the table (T leg)."""
import json
import os
import vlib

META = {
    "coq_targets": ["Tie/LocksetTie.vo"],
    "trusted_base": [
        "tools/lockset (Go AST translator): completeness of the access table (field selections on the muxer's own types, "
        "pkg/storage and the codec parameter structs), its lock-state walk, its role assignment and its object life-cycle "
        "annotations (open/list/ownership fields) are trusted; it fails on constructs it does not understand",
        "the trace model of Model/Lockset.v: sequentially consistent interleavings, happens-before = program order + "
        "Mutex/RWMutex hand-over + publication; the Go memory model itself and the race detector are outside the proof",
        "atomic views are proved at critical-section granularity (Model/LocksetAtomic.v); that generate* runs inside one "
        "critical section is checked on the table (c08_generate_under_mutex); the single-state invariants come from M3",
        "Go harness harness/cmd/race (stress schedule, race-report normalisation, single-playlist oracle) and lib/vlib.py",
    ],
    "assumptions": [
        "one goroutine calls Write* and finally Close; Start returns before any other call (API contract)",
        "Write* never returned an error before (after a failed rotation nextSegment can be nil and createFirstSegment would run again)",
        "accesses inside mediacommon / bytes.Buffer / bufio are attributed to the owning field; callbacks from external code "
        "other than io.Copy -> Read are not followed",
    ],
}

TABLE = os.path.join(vlib.COQ, "Generated", "LocksetTable.v")


def _sites_path():
    return os.path.join(vlib.WORK, "C08", "sites.json")


def translate():
    """regenerate coq/Generated/LocksetTable.v and work/C08/sites.json from the repository; returns an error string or None"""
    os.makedirs(os.path.join(vlib.WORK, "C08"), exist_ok=True)
    os.makedirs(os.path.join(vlib.WORK, "bin"), exist_ok=True)
    binp = os.path.join(vlib.WORK, "bin", "lockset")
    with vlib.Lock("go"):
        rc, out = vlib.run(["go", "build", "-o", binp, "."], cwd=os.path.join(vlib.VERIF, "tools", "lockset"),
                           env=vlib.go_env(), timeout=600)
    if rc != 0:
        return "go build of tools/lockset failed: " + out[-1500:]
    tmp = os.path.join(vlib.WORK, "C08", "LocksetTable.v.new")
    rc, out = vlib.run([binp, "-repo", ".", "-coq", tmp, "-sites", _sites_path()], cwd=vlib.REPO, env=vlib.go_env(), timeout=600)
    if rc != 0:
        return "tools/lockset failed on %s: %s" % (vlib.REPO, out[-1500:])
    new = open(tmp).read()
    old = open(TABLE).read() if os.path.exists(TABLE) else ""
    if new != old:
        with vlib.Lock("coq"):
            open(TABLE, "w").write(new)
    return None


def run(ctx):
    t = vlib.Tie()
    if not os.path.exists(_sites_path()):
        err = translate()
        if err:
            t.errors.append("translator: " + err)
            return t
    ok, log, binp = vlib.build_harness("race", race=True)
    if not ok:
        t.errors.append("go build -race failed: " + log[-2000:])
        return t
    out = os.path.join(ctx["work"], "run_w" if ctx["widen"] else "run")
    vlib.run(["rm", "-rf", out])
    cmd = [binp, "-seed", str(ctx["seed"]), "-tier", ctx["tier"], "-out", out, "-sites", _sites_path(), "-repo", vlib.REPO]
    if ctx["widen"]:
        cmd.append("-widen")
    if ctx["replay"]:
        cmd += ["-replay", ctx["replay"]]
    rc, o = vlib.run(cmd, timeout=3000)
    if rc != 0:
        t.errors.append("race harness failed: " + o[-2000:])
        return t
    r = json.load(open(os.path.join(out, "result.json")))
    t.evaluations = r["evaluations"]
    t.distinct_nontrivial = r["distinct_nontrivial"]
    t.rule = r["rule"]
    t.samples = r["samples"]
    t.traces = r["traces_validated_against_impl"]
    t.distribution = r["distribution"]
    t.oracle_failures = r["oracle_failures"] or []
    t.errors += r.get("errors") or []
    t.extra["observed_races"] = r.get("observed_races") or []
    t.extra["race_counts"] = r.get("race_counts") or {}
    t.min_nontrivial = 0 if ctx["replay"] else (300 if ctx["tier"] == "quick" else 3000)
    # T leg: every observed race is an unsafe pair of the generated table
    if ctx["model_available"]:
        obs = r.get("observed_races") or []
        for res in vlib.eval_shards(out):
            if not res["ok"]:
                t.errors.append("model evaluation failed on %s: %s" % (res["shard"], res["error"]))
                continue
            for idx in res["bad"]:
                o3 = obs[idx] if idx < len(obs) else None
                t.mismatches.append({"observable": "race-not-predicted-by-table", "input": {"race": o3},
                                     "detail": "the race detector reported a race on a pair the access table claims ordered: " + res.get("raw", "")[:500]})
    # races at places the table does not know at all
    for f in t.oracle_failures:
        if f["signature"].startswith("C08:race:untracked:"):
            t.mismatches.append({"observable": "race-outside-table", "input": f.get("input"), "detail": f["what"]})
    # do not keep per-run directories of the children
    vlib.run("rm -rf %s/run[0-9]*" % out)
    return t
