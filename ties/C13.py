"""C13 tie + search: the real gohlslib.Client in child processes against a stub transport serving
mutated media and playlists, vs Model/ClientContent.v."""
import glob
import json
import os
import re
import shutil
import vlib

META = {
    "coq_targets": ["Tie/ClientContentTie.vo"],
    "trusted_base": [
        "hand-written Gallina transcription of the client's content handling (Model/ClientContent.v: checkSupport, pickLeadingPlaylist, "
        "rendition handling, FromFMP4/FromMPEGTS, fmp4PickLeadingTrack, track-processor construction and its type switch, processSegment "
        "of both stream processors, time conversion incl. int64 wrap, handleData, playlist index expressions), tied to /repo by this correspondence run",
        "mediacommon v2.1.0 / go-astits / go-mp4 byte parsers as oracles: the model starts from what fmp4.Init.Unmarshal, fmp4.Parts.Unmarshal, "
        "mpegts.Reader and playlist.Unmarshal return; assumed promises (mc_wf): a successfully parsed init has >= 1 track and no nil Codec "
        "(checked by the harness on every init it serves); mpegts.Reader.Read consumes >= 1 packet unless it fails or reports the end",
        "goroutine interleavings: the model runs one canonical schedule; panic freedom is proved per operation for all arguments "
        "(c13_op_*), which covers every schedule; error-vs-error races are not modelled (the tie compares streams with at most one deviation)",
        "Go harness harness/cmd/clientcontent (generator, stub RoundTripper, child-process runner, classification by error-text provenance) and lib/vlib.py",
    ],
    "assumptions": [
        "c13_playlist_use assumes structural_ok (no nil element in Segments / Parts / Variants / Renditions): to be discharged by C15's Unmarshal theorem",
        "c13_content_no_panic is FALSE on the pinned tree: c13_refuted (unsupported fMP4 codec -> nil decodePayload) and "
        "c13_refuted_zero_timescale (mdhd time scale 0 -> integer divide by zero); the partial theorem assumes all fMP4 init codecs supported and time scales non-zero",
        "model-compared streams keep sample times either below 0.2 s or beyond 1 h, so that the sleep in handleData does not decide the class",
        "byte ranges (EXT-X-BYTERANGE, EXT-X-MAP BYTERANGE; with / without the optional offset; separate resources and consecutive sub-ranges of one resource): "
        "the stub server honours the Range header (206 with exactly those bytes, 416 past the end) and the model is fed the bytes the UNCHANGED client obtains "
        "(a length-only range is requested from offset 0 - for a sub-range that is not the first of its resource this is C10's recorded finding range-implicit, "
        "not judged here: C13 wants no panic, no wedge, an error or normal play)",
        "absurd byte ranges (declared lengths 0, 2^62, 2^63-1, 2^63, 2^64-1; offsets that make offset + length wrap around 2^64; segments and EXT-X-MAP): "
        "when the Range header the unchanged client computes (uint64 arithmetic, wrapping) still starts inside the resource, the stub serves the bytes that exist "
        "and the stream is model-compared like any other; when the stub answers 416 (first byte past the end, or last byte before the first after the wrap) the "
        "stream is search-only (oracle leg, NOT compared with the model, which has no failed segment download): no crash, no hang, and the VOD stream must end "
        "by itself (an error from Wait or end of stream) without the harness calling Close()",
        "search-only (oracle) leg: valid playlists carrying every tag of the decoder and grammar-aware line-level mutations of their tag lines, at every playlist "
        "position (primary, stream playlist, live reload, low-latency reload): no crash, no hang; outcomes are not compared with the model",
        "search-only (oracle) leg, NOT covered by any theorem: the MPEG-TS track processor's buffered sample queue (clientMPEGTSSampleQueueSize = 100) and the "
        "blocking push into it are not in the model - c13_no_wedge_after_repair speaks about Err EBlocked inside client_run_gen, whose MPEG-TS path hands every "
        "unit to its track processor at once; that a stream processor blocked in push (segments with more than 100 units of one track) still ends with the "
        "track processor's error and still honours Close() is decided by the child-process oracle on long-segment streams (150-300 units: fatal time jump "
        "after the first unit; Close() in the middle of the segment), hang watchdog reproduced 3 times",
    ],
}


def _fuzz_playlist_parsers(ctx, t, seconds):
    """thorough tier: native coverage-guided fuzzing of the playlist parsers on a scratch copy of the
    repository (go test -fuzz writes new corpus files next to the package: never in /repo)."""
    scratch = os.path.join(ctx["work"], "fuzzrepo")
    vlib.run(["rm", "-rf", scratch])
    shutil.copytree(vlib.REPO, scratch, ignore=shutil.ignore_patterns(".git"))
    for target in ("FuzzPlaylistUnmarshal", "FuzzMediaUnmarshal", "FuzzMultivariantUnmarshal"):
        rc, out = vlib.run(["go", "test", "./pkg/playlist", "-run", "^$", "-fuzz", "^" + target + "$",
                            "-fuzztime", "%ds" % seconds],
                           cwd=scratch, env=vlib.go_env(), timeout=seconds + 600)
        t.extra.setdefault("native_fuzz", {})[target] = {"rc": rc, "tail": out[-300:]}
        if rc != 0 and "Failing input written to" in out:
            new = sorted(glob.glob(os.path.join(scratch, "pkg/playlist/testdata/fuzz", target, "*")), key=os.path.getmtime)
            body = open(new[-1]).read() if new else ""
            t.oracle_failures.append({"signature": "C13:playlist-parser:fuzz:" + target,
                                      "what": "go test -fuzz found a crashing input for " + target + ": " + out[-600:],
                                      "input": {"fuzz_target": target, "corpus_file": body}})
        elif rc != 0:
            t.errors.append("go test -fuzz %s failed to run: %s" % (target, out[-800:]))
    vlib.run(["rm", "-rf", scratch])


def run(ctx):
    t = vlib.Tie()
    ok, log, binp = vlib.build_harness("clientcontent")
    if not ok:
        t.errors.append("go build failed: " + log[-2000:])
        return t
    out = os.path.join(ctx["work"], "run_w" if ctx["widen"] else "run")
    vlib.run(["rm", "-rf", out])
    n = {"quick": 1200, "thorough": 20000}[ctx["tier"]]
    if os.environ.get("VERIF_C13_N"):      # mutation self-tests on scratch copies (tools/clientcontent/selftest.sh)
        n = int(os.environ["VERIF_C13_N"])
    if ctx["widen"]:
        n *= 3
    cmd = [binp, "-seed", str(ctx["seed"]), "-tier", ctx["tier"], "-out", out, "-n", str(n), "-repo", vlib.REPO,
           "-regress", os.path.join(vlib.VERIF, "corpus", "C13")]
    if ctx["replay"]:
        cmd += ["-replay", ctx["replay"]]
    if os.environ.get("VERIF_C13_REPAIRS") and vlib.REPO != "/repo":
        # self-tests on scratch copies that contain proposed repairs: compare with the repaired model
        cmd += ["-repairs", os.environ["VERIF_C13_REPAIRS"]]
    rc, o = vlib.run(cmd, timeout=3000)
    if rc != 0:
        t.errors.append("harness failed: " + o[-2000:])
        return t
    r = json.load(open(os.path.join(out, "result.json")))
    t.evaluations = r["evaluations"]
    t.distinct_nontrivial = r["distinct_nontrivial"]
    t.rule = r["rule"]
    t.samples = r["samples"]
    t.traces = r["traces_validated_against_impl"]
    t.distribution = r["distribution"]
    t.oracle_failures = r["oracle_failures"] or []
    t.errors += ["harness infrastructure: " + e for e in (r["infra_errors"] or [])[:5]]
    t.min_nontrivial = 0 if ctx["replay"] else 150
    t.extra["model_compared_streams"] = r["distribution"].get("compared", 0)
    if ctx["model_available"] and not ctx["widen"]:
        unstable = 0
        kinds = {1: "timing-unstable-case", 2: "tracks-exposed", 3: "end-class", 4: "units-delivered", 5: "decode-errors"}
        for res in vlib.eval_shards(out):
            if not res["ok"]:
                t.errors.append("model evaluation failed on %s: %s" % (res["shard"], res["error"]))
                continue
            shard = int(os.path.basename(res["shard"])[6:-2])
            reasons = {int(i): [int(x) for x in re.findall(r"\d+", body)]
                       for i, body in re.findall(r"\((\d+)(?:%nat)?\s*,\s*\[([^\]]*)\]\)", res.get("raw", ""))}
            for idx in res["bad"]:
                if reasons.get(idx) == [1]:
                    # the model's class depends on the wall clock within [0, 2 s] (a sample 8-12 s in the future):
                    # not comparable; the implementation's class agreed with the model at elapsed = 0
                    unstable += 1
                    continue
                pc = [c for c in r.get("pcases") or [] if c["shard"] == shard and c["index"] == idx]
                if pc:
                    t.mismatches.append({"observable": "playlist-index-expressions", "input": {"call": pc[0]["call"]},
                                         "detail": "real function returned %s; model disagrees" % pc[0]["obs"]})
                    continue
                c = [c for c in r["cases"] if c["shard"] == shard and c["index"] == idx][0]
                t.mismatches.append({"observable": "client-outcome-class", "input": c["recipe"],
                                     "detail": "observed class %s %s, faults %s; reasons (%s): %s" % (
                                         c["class"], c["ends"], c["faults"], kinds, res.get("raw", "")[:400])})
        t.mismatches.sort(key=lambda m: len(json.dumps(m["input"])))
        t.extra["timing_unstable_cases_excluded"] = unstable
        if unstable * 100 > max(1, t.extra["model_compared_streams"]):
            t.errors.append("%d of %d compared streams are timing-unstable: the generator must keep sample times away from the 10 s window"
                            % (unstable, t.extra["model_compared_streams"]))
    if ctx["tier"] == "thorough" and not ctx["replay"] and not ctx["widen"]:
        _fuzz_playlist_parsers(ctx, t, 60)
    return t
