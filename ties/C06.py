"""C06 tie + search: blocking reload / preload hint / delta update of the real muxer vs
Model/MuxConc*.v. (The glue below - build, run harness/cmd/muxconc, evaluate the case shards -
is shared with ties/C07.py, which loads this module.)"""

import json
import os
import vlib

COQ_TARGETS = ["Tie/MuxConcTie.vo", "Proofs/MuxConcTieRun.vo"]

TRUSTED = [
    "hand-written Gallina transcription of handleMultivariantPlaylist, handleMediaPlaylist, the preload-hint closure, "
    "Muxer.rotateParts/rotateSegments/Close, muxerServer.handle, hasContent/hasPart, the range check, parseMSNPart, "
    "filterOutHLSParams, generateMediaPlaylistFMP4 over an abstract stream state (Model/MuxConcSeq.v, Model/MuxConcPar.v), "
    "tied to /repo by this correspondence run",
    "sync.Mutex / sync.Cond semantics: Wait releases the mutex and joins the notify list atomically, Broadcast wakes every "
    "goroutine on the list, no spurious wake-ups; the Go scheduler is fair to every runnable goroutine",
    "the abstract writer operations (RotateParts, RotateSegments dur, CreateFirst) stand for what muxerSegmenter does between "
    "synchronisation points; they are read off the hooks and VerifSnapshot of the real run (a refinement lemma from M3 is owed)",
    "Go harness harness/cmd/muxconc (controller through VerifSetHook, goroutine-state inspection through runtime.Stack, "
    "playlist reader, oracles written from the property texts) and lib/vlib.py",
]


def run_muxconc(ctx, pid, floor):
    t = vlib.Tie()
    ok, log, binp = vlib.build_harness("muxconc")
    if not ok:
        t.errors.append("go build failed: " + log[-2000:])
        return t
    out = os.path.join(ctx["work"], "run_w" if ctx["widen"] else "run")
    vlib.run(["rm", "-rf", out])
    cmd = [binp, "-seed", str(ctx["seed"]), "-tier", ctx["tier"], "-out", out, "-only", pid,
           "-corpus", os.path.join(vlib.VERIF, "findings")]
    if ctx["widen"]:
        cmd += ["-scale", "3"]
    if ctx["replay"]:
        cmd += ["-replay", ctx["replay"]]
    rc, o = vlib.run(cmd, timeout=3000)
    if rc != 0:
        t.errors.append("harness failed: " + o[-2000:])
        return t
    r = json.load(open(os.path.join(out, "result.json")))
    t.evaluations = r["evaluations"]
    t.distinct_nontrivial = r["distinct_nontrivial"]
    t.rule = r["rule"]
    t.samples = r["samples"]
    t.traces = r["traces_validated_against_impl"]
    t.distribution = r["distribution"]
    t.oracle_failures = [f for f in (r["oracle_failures"] or []) if f["signature"].startswith(pid + ":")]
    for f in (r["oracle_failures"] or []):
        if not f["signature"].startswith(pid + ":"):
            t.errors.append("oracle failure of another property in a %s run: %s" % (pid, f["signature"]))
    for e in (r.get("errors") or []):
        t.errors.append(e)
    t.min_nontrivial = 0 if ctx["replay"] else floor
    if ctx["model_available"] and not ctx["widen"]:
        for res in vlib.eval_shards(out):
            if not res["ok"]:
                t.errors.append("model evaluation failed on %s: %s" % (res["shard"], res["error"]))
                continue
            shard = int(os.path.basename(res["shard"])[6:-2])
            for idx in res["bad"]:
                c = [c for c in r["cases"] if c["shard"] == shard and c["index"] == idx][0]
                t.mismatches.append({"observable": "muxconc-" + c["input"]["kind"], "input": c["input"],
                                     "detail": res.get("raw", "")[:800]})
        t.mismatches.sort(key=lambda m: len(json.dumps(m["input"])))
    return t


META = {
    "coq_targets": COQ_TARGETS,
    "trusted_base": TRUSTED,
    "assumptions": [
        "Low-Latency variant; ids below 2^64-2 (in_range); rotations never fail (no storage error injection)",
        "the 400 the code gives for the HEAD of the window (first listed segment) is the recorded finding F28 "
        "(signature C06:400:head-of-window:listed-segment-rejected, known_findings.json), every other unjustified 400 alarms",
        "the progress theorems' path-table hypothesis hint_prop is proved reachable for all three variants; they start "
        "from a free mutex and a writer goroutine that has not panicked; in_range (ids below 2^64-2) is an assumption",
    ],
}


def run(ctx):
    return run_muxconc(ctx, "C06", 60)
