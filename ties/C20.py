"""C20 tie + search: the real clientSegmentQueue under a schedule-owning controller vs Model/Queue.v,
a -race stress of the real queue, and an end-to-end leg: the real Client (runTraditional) against
scripted in-memory playlists with the look-ahead oracle (harness/cmd/queue/e2e.go)."""
import json
import os
import re
import vlib

META = {
    "coq_targets": ["Tie/QueueTie.vo"],
    "trusted_base": [
        "hand-written Gallina small-step transcription of client_segment_queue.go (Model/Queue.v: one step per Lock / critical-section piece / Unlock / hook / select-operand evaluation / select), tied to /repo by this correspondence run",
        "Go semantics assumed by the model: close(ch) enables every receiver of ch and a closed channel stays ready; make returns a fresh channel; sync.Mutex excludes; a select with a ready case does not block; sequentially consistent interleaving (the unsynchronised read of q.didPull is given SC semantics in the model, the race itself is reported by the -race leg)",
        "Go harness harness/cmd/queue: controller, hook parking, quiescence detection by stop-the-world goroutine dump (runtime.Stack: '[select]' with top frame inside clientSegmentQueue), property oracle, race-report parser; lib/vlib.py",
        "sync-skeleton check in ties/C20.py: client_segment_queue.go (decides which model variant, library or fixed, the cases are evaluated with) and the producer program of client_stream_downloader.go (runTraditional's loop 'fillSegmentQueue; waitUntilSizeIsBelow(ctx, 1); downloadPlaylist' and fillSegmentQueue's pushes = Model/Queue.v trad); unknown shapes fail the run",
        "end-to-end leg (harness/cmd/queue/e2e.go): real gohlslib.Client over an in-memory RoundTripper, MPEG-TS and fMP4 (also fMP4 media segments of 2-4 moof+mdat parts), VOD / live / live-ending-with-a-burst, slow consumer (holds one sample per segment - the first, or the first of the last part - until the downloader is throttled AND a stop-the-world goroutine dump shows the whole client at rest) and fast consumer; also flags an end of stream reported before every sample of the downloaded segments was delivered; oracle 'downloaded - fully processed <= 2 at every segment request', which relies on the stream processors returning from processSegment only after every sample of the segment went through the data callback; "
        "and a cancellation scenario ('both return promptly on cancellation', end to end): one MPEG-TS segment of 150 access units 200 ms apart played in real time, "
        "Close() 100 ms after the third sample - the stream processor is then blocked pushing into the full 100-entry sample queue of a track processor that sleeps between two samples - "
        "oracle: Wait() reports and no goroutine of the client is left; 'never reports' is decided by three identical all-blocked stop-the-world goroutine dumps, not by a timeout; "
        "a mode-selection scenario: live fMP4 playlist with EXT-X-SERVER-CONTROL (PART-HOLD-BACK only, no CAN-BLOCK-RELOAD), PART-INF and a PRELOAD-HINT whose part the server "
        "answers at once - the client must stay in the throttled traditional mode, hinted parts count as downloaded media files in the look-ahead oracle; "
        "and a VOD fMP4 stream (video + audio) whose second segment has an audio track fragment without samples: every video access unit of every segment must reach the callback in "
        "order and Wait() must report the end of the stream, a stalled pipeline being recognised by four identical goroutine dumps in which every client goroutine is blocked and none "
        "waits for a sample's presentation time. The look-ahead oracle is disarmed from the moment the harness decides to close the client (after Close no sample is delivered, while a "
        "cancelled MPEG-TS stream processor still drains queued segments: that produced a spurious alarm in about 3 % of the runs of ts-live-slow)",
    ],
    "assumptions": [
        "one downloader and one processor goroutine per queue (as in clientStreamDownloader / clientStreamProcessor*), cancellation through the shared context",
        "the harness schedules at the granularity of the hook points (between Unlock and the select) and operation boundaries; the finer steps of the model inside critical sections are covered by the theorems, not by the tie",
    ],
}

_variant = {"fixed": None}


def _norm(body):
    body = re.sub(r"//[^\n]*", "", body)
    body = re.sub(r"verifHook\([^)]*\)", "", body)
    return re.sub(r"[\s;]+", "", body)


def _func(src, name, recv=r"q \*clientSegmentQueue"):
    m = re.search(r"func \(%s\) %s\([^)]*\)[^{]*\{" % (recv, name), src)
    if not m:
        return None
    i = m.end()
    depth = 1
    while i < len(src) and depth:
        if src[i] == "{":
            depth += 1
        elif src[i] == "}":
            depth -= 1
        i += 1
    return _norm(src[m.end():i - 1])


PUSH = _norm("""
q.mutex.Lock()
queueWasEmpty := (len(q.queue) == 0)
q.queue = append(q.queue, seg)
if queueWasEmpty { close(q.didPush); q.didPush = make(chan struct{}) }
q.mutex.Unlock()
""")
PULL = _norm("""
q.mutex.Lock()
for len(q.queue) == 0 {
    didPush := q.didPush
    q.mutex.Unlock()
    select { case <-didPush: case <-ctx.Done(): return nil, false }
    q.mutex.Lock()
}
var seg *segmentData
seg, q.queue = q.queue[0], q.queue[1:]
close(q.didPull)
q.didPull = make(chan struct{})
q.mutex.Unlock()
return seg, true
""")
WAIT_LIB = _norm("""
q.mutex.Lock()
for len(q.queue) > n {
    q.mutex.Unlock()
    select { case <-q.didPull: case <-ctx.Done(): return false }
    q.mutex.Lock()
}
q.mutex.Unlock()
return true
""")
WAIT_FIXED = _norm("""
q.mutex.Lock()
for len(q.queue) > n {
    didPull := q.didPull
    q.mutex.Unlock()
    select { case <-didPull: case <-ctx.Done(): return false }
    q.mutex.Lock()
}
q.mutex.Unlock()
return true
""")


RUN_TRADITIONAL = _norm("""
pl := d.firstPlaylist
for {
    err := d.fillSegmentQueue(ctx, pl)
    if err != nil { return err }
    ok := d.segmentQueue.waitUntilSizeIsBelow(ctx, 1)
    if !ok { return fmt.Errorf("terminated") }
    pl, err = d.downloadPlaylist(ctx, false)
    if err != nil { return err }
}
""")
FILL_TAIL = _norm("""
byts, err := d.downloadSegment(ctx, seg.URI, seg.ByteRangeStart, seg.ByteRangeLength)
if err != nil { return err }
d.segmentQueue.push(&segmentData{ dateTime: seg.DateTime, payload: byts, })
if pl.Endlist && pl.Segments[len(pl.Segments)-1] == seg {
    d.segmentQueue.push(nil)
    <-ctx.Done()
    return fmt.Errorf("terminated")
}
return nil
""")


FILL_EOS = _norm("""
if pl.Endlist && *d.curSegmentID+1 == pl.MediaSequence+len(pl.Segments) {
    d.segmentQueue.push(nil)
    <-ctx.Done()
    return fmt.Errorf("terminated")
}
""")


def translate():
    """sync skeleton of client_segment_queue.go: the three functions must have exactly the shape the
    model transcribes; waitUntilSizeIsBelow may be the library's or the fixed variant"""
    try:
        src = open(os.path.join(vlib.REPO, "client_segment_queue.go")).read()
    except OSError as e:
        return "cannot read client_segment_queue.go: %s" % e
    push, pull, wait = _func(src, "push"), _func(src, "pull"), _func(src, "waitUntilSizeIsBelow")
    if push != PUSH:
        return "client_segment_queue.go: push() no longer has the shape transcribed in Model/Queue.v (step_p PushLocked..PushUnlock): " + str(push)
    if pull != PULL:
        return "client_segment_queue.go: pull() no longer has the shape transcribed in Model/Queue.v (step_c): " + str(pull)
    if wait == WAIT_LIB:
        _variant["fixed"] = False
    elif wait == WAIT_FIXED:
        _variant["fixed"] = True
    else:
        return "client_segment_queue.go: waitUntilSizeIsBelow() has a shape Model/Queue.v does not transcribe (neither 'case <-q.didPull' after Unlock nor 'didPull := q.didPull' before Unlock): " + str(wait)
    # the callers: runTraditional throttles with n = 1, the processors loop on pull
    try:
        dl = open(os.path.join(vlib.REPO, "client_stream_downloader.go")).read()
    except OSError as e:
        return "cannot read client_stream_downloader.go: %s" % e
    ns = re.findall(r"waitUntilSizeIsBelow\(ctx,\s*([^)]+)\)", dl)
    if ns != ["1"]:
        return "client_stream_downloader.go: expected exactly one waitUntilSizeIsBelow(ctx, 1) (runTraditional), found %s" % ns
    # the producer program the bound theorem is about (Model/Queue.v [trad]): every trip round the loop
    # is fillSegmentQueue (one push; push(nil) + wait for ctx after the last ENDLIST segment) and THEN
    # the throttle - no continue / early loop-back between the push and waitUntilSizeIsBelow(ctx, 1)
    rt = _func(dl, "runTraditional", recv=r"d \*clientStreamDownloader")
    if rt != RUN_TRADITIONAL:
        return ("client_stream_downloader.go: runTraditional() no longer has the loop shape 'fillSegmentQueue; "
                "waitUntilSizeIsBelow(ctx, 1); downloadPlaylist' on every path (Model/Queue.v trad, c20_bound): " + str(rt))
    fs = _func(dl, "fillSegmentQueue", recv=r"d \*clientStreamDownloader")
    # (the end-of-stream marker may also be pushed on a later trip, when a reload shows ENDLIST right
    # after the last downloaded segment: trad_eos)
    fs = (fs or "").replace(FILL_EOS, "", 1)
    if not fs.endswith(FILL_TAIL) or fs.count("segmentQueue.push(") != 2:
        return ("client_stream_downloader.go: fillSegmentQueue() no longer ends with 'one push of the downloaded segment; "
                "on the last ENDLIST segment push(nil) and wait for ctx' (Model/Queue.v trad_cons / trad_end): " + str(fs)[-400:])
    return None


def run(ctx):
    t = vlib.Tie()
    if _variant["fixed"] is None:
        err = translate()
        if err:
            # unknown shape: still drive the real code (oracle + library-variant model) so that a
            # behavioural break yields a concrete failing schedule, but never pass
            t.errors.append(err)
    ok, log, binp = vlib.build_harness("queue")
    if not ok:
        t.errors.append("go build failed: " + log[-2000:])
        return t
    ok, log, racep = vlib.build_harness("queue", race=True)
    if not ok:
        t.errors.append("go build -race failed: " + log[-2000:])
        return t
    out = os.path.join(ctx["work"], "run_w" if ctx["widen"] else "run")
    vlib.run(["rm", "-rf", out])
    tier = ctx["tier"]
    if ctx["widen"] and tier == "quick":
        tier = "thorough"   # the widened search enumerates the larger configurations
    cmd = [binp, "-seed", str(ctx["seed"]), "-tier", tier, "-out", out, "-racebin", racep]
    if _variant["fixed"]:
        cmd.append("-fixed")
    if ctx["widen"]:
        cmd += ["-maxcases", "1"]
    if ctx["replay"]:
        cmd += ["-replay", ctx["replay"]]
    rc, o = vlib.run(cmd, timeout=3000)
    if rc != 0:
        t.errors.append("harness failed: " + o[-2000:])
        return t
    r = json.load(open(os.path.join(out, "result.json")))
    t.evaluations = r["evaluations"]
    t.distinct_nontrivial = r["distinct_nontrivial"]
    t.rule = r["rule"]
    t.samples = r["samples"] or []
    t.traces = r["traces_validated_against_impl"]
    t.distribution = r["distribution"]
    t.oracle_failures = r["oracle_failures"] or []
    t.errors += r["errors"] or []
    t.min_nontrivial = 0 if ctx["replay"] else 500
    t.extra["model_variant"] = "WaitBelow true (channel captured under the mutex)" if _variant["fixed"] else "WaitBelow false (library: q.didPull evaluated after Unlock)"
    t.extra["hook_releases_observed"] = r["hook_releases_observed"]
    t.extra["distinct_executions"] = r["distinct"]
    t.extra["e2e_scenarios"] = r.get("e2e_scenarios", 0)
    if ctx["model_available"] and not ctx["widen"]:
        by = {(c["shard"], c["index"]): c for c in (r["cases"] or [])}
        for res in vlib.eval_shards(out):
            if not res["ok"]:
                t.errors.append("model evaluation failed on %s: %s" % (res["shard"], res["error"]))
                continue
            shard = int(os.path.basename(res["shard"])[6:-2])
            for idx in res["bad"]:
                c = by[(shard, idx)]
                t.mismatches.append({"observable": "queue-observations", "input": c["input"],
                                     "detail": res.get("raw", "")[:500]})
        t.mismatches.sort(key=lambda m: len(m["input"]["decisions"]))
    return t
