"""C15 tie + search: pkg/playlist decoders are total, their results structurally sound and
re-marshalable, Marshal output grammatical; vs Model/Playlist.v."""
import importlib.util
import os
import vlib

_spec = importlib.util.spec_from_file_location("tie_C14_shared", os.path.join(vlib.VERIF, "ties", "C14.py"))
_c14 = importlib.util.module_from_spec(_spec)
_spec.loader.exec_module(_c14)

META = {
    "coq_targets": ["Tie/PlaylistTie.vo"],
    "trusted_base": [
        "hand-written Gallina transcription of pkg/playlist and pkg/playlist/primitives (Model/PlaylistBase.v, Model/Playlist.v), tied to /repo by this correspondence run (valid values, token-level mutations of real Marshal output)",
        "totality of the external parsers (strconv.ParseFloat, time.Parse never panic): oracles are total functions string -> option",
        "independent strict RFC 8216 / 8216bis grammar checker harness/internal/playlist/grammar (Go, standard library only, shares no code with pkg/playlist)",
        "Go harness harness/cmd/playlist (generator, mutator, structure oracle, recover + watchdog around every call) and lib/vlib.py",
    ],
    "assumptions": [
        "Unmarshal on a fresh receiver; playlist values without nil elements inside slices",
        "grammar part: valid value = wf_media / wf_multivariant of Model/PlaylistSpec.v; muxer-served playlists = those of 12 (quick) / 120 (thorough) real Muxer scenarios per run (three variants, H264 + optional AAC, random pacing), non-blocking requests only",
    ],
}


def run(ctx):
    return _c14.run_playlist(ctx, "C15", 2500 if ctx["tier"] == "quick" else 25000)
