"""C11 tie + search: real gohlslib.Client against a scripted in-process stub vs Model/ClientSel.v."""
import json
import os
import vlib

META = {
    "coq_targets": ["Tie/ClientSelTie.vo"],
    "trusted_base": [
        "hand-written Gallina transcription of client_stream_downloader.go (findSegmentWithID, findSegmentWithInvPosition, "
        "fillSegmentQueue, downloadSegment/downloadPreloadHint Range header, runTraditional, runLowLatency, run) in "
        "Model/ClientSel.v, tied to /repo by this correspondence run",
        "URL oracles: the theorems hold for ANY resolve/with_skip; the executable instances (Model/ClientSelURL.v: RFC 3986 "
        "reference resolution, sorted query re-encoding) are compared with clientAbsoluteURL / url.Values.Encode on every "
        "generated (base, reference) pair and on the RFC 3986 5.4 examples",
        "Go harness harness/cmd/clientsel (history generator, stub http.RoundTripper, media synthesis with mediacommon, "
        "property oracle using net/url and big integers) and lib/vlib.py",
    ],
    "assumptions": [
        "one history = the media playlists the server returns for one media playlist URL, one per poll; after the last one "
        "the server answers 404 (outcome OServerGone)",
        "every segment / init / preload-hint request is answered with valid media; media timestamps advance 20 ms per request "
        "(300 ms in four paced corpus scenarios)",
        "delivery is observed for the video stream only (one tagged IDR unit per media object, recorded in OnDataH26x) and judged by "
        "the oracle alone: 'ErrClientEOS only after every fetched unit was delivered'; the Coq model has no notion of delivery",
        "playlists are structurally valid (>= 1 segment, MEDIA-SEQUENCE < 2^31) as guaranteed by playlist.Unmarshal; the "
        "no-panic theorem needs no such assumption",
        "with several renditions the order of requests ACROSS media playlists and which failing rendition reports first are "
        "scheduling-dependent: logs are compared per media playlist, renditions cut short by another one's error as prefixes",
    ],
}

KINDS = {1: "request-log", 2: "final-outcome", 3: "url-oracle-instance", 4: "findSegmentWithID",
         5: "findSegmentWithInvPosition", 6: "constants"}


def run(ctx):
    t = vlib.Tie()
    ok, log, binp = vlib.build_harness("clientsel")
    if not ok:
        t.errors.append("go build failed: " + log[-2000:])
        return t
    out = os.path.join(ctx["work"], "run_w" if ctx["widen"] else "run")
    vlib.run(["rm", "-rf", out])
    n = {"quick": 400, "thorough": 8000}[ctx["tier"]]
    if ctx["widen"]:
        n *= 4
    cmd = [binp, "-seed", str(ctx["seed"]), "-tier", ctx["tier"], "-out", out, "-n", str(n)]
    if ctx["replay"]:
        cmd += ["-replay", ctx["replay"]]
    rc, o = vlib.run(cmd, timeout=3000)
    if rc != 0:
        t.errors.append("harness failed: " + o[-2000:])
        return t
    r = json.load(open(os.path.join(out, "result.json")))
    t.evaluations = r["evaluations"]
    t.distinct_nontrivial = r["distinct_nontrivial"]
    t.rule = r["rule"]
    t.samples = r["samples"]
    t.traces = r["traces_validated_against_impl"]
    t.distribution = r["distribution"]
    t.oracle_failures = r["oracle_failures"] or []
    t.errors += r.get("errors") or []
    t.extra["client_wall_ms"] = r.get("client_wall_ms")
    t.min_nontrivial = 0 if ctx["replay"] else 100
    if ctx["model_available"] and not ctx["widen"]:
        index = {(c["shard"], c["index"]): c["input"] for c in r["cases"]}
        for res in vlib.eval_shards(out, jobs=16):
            if not res["ok"]:
                t.errors.append("model evaluation failed on %s: %s" % (res["shard"], res["error"]))
                continue
            shard = int(os.path.basename(res["shard"])[6:-2])
            raw = res.get("raw", "")
            for idx in res["bad"]:
                inp = index.get((shard, idx))
                obs = "obs"
                import re
                m = re.search(r"\(\s*%d(?:%%nat)?\s*,\s*\[([^\]]*)\]" % idx, raw)
                if m:
                    codes = [int(x) for x in re.findall(r"\d+", m.group(1))]
                    obs = "+".join(KINDS.get(c, str(c)) for c in codes)
                t.mismatches.append({"observable": obs, "input": inp, "detail": raw[:500]})
        t.mismatches.sort(key=lambda m: len(json.dumps(m["input"])))
    return t
