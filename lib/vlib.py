"""Shared machinery of /verif/bin/check: gates, Coq build, assumption capture, harness
build, model evaluation of case shards, verdict, evidence and replay files."""
import concurrent.futures
import fcntl
import fnmatch
import glob
import hashlib
import importlib.util
import json
import os
import re
import shutil
import subprocess
import sys
import time

VERIF = os.path.dirname(os.path.dirname(os.path.abspath(__file__)))
COQ = os.path.join(VERIF, "coq")
REPO = os.environ.get("VERIF_REPO", "/repo")   # registered commands always use /repo; the override
                                               # exists for mutation self-tests on scratch copies
_ALT = "" if REPO == "/repo" else "alt-" + hashlib.sha256(REPO.encode()).hexdigest()[:8]
WORK = os.path.join(VERIF, "work", _ALT) if _ALT else os.path.join(VERIF, "work")
HARNESS = os.path.join(VERIF, "harness")

ALLOWED_AXIOMS = [
    # standard-library axioms that may appear (none is expected); anything else fails the run
    "Coq.Logic.FunctionalExtensionality.functional_extensionality_dep",
    "functional_extensionality_dep",
    "Coq.Logic.ProofIrrelevance.proof_irrelevance",
    "proof_irrelevance",
    "Coq.Logic.Classical_Prop.classic",
    "classic",
    "Coq.Logic.JMeq.JMeq_eq",
    "JMeq_eq",
    "Coq.Logic.Eqdep.Eq_rect_eq.eq_rect_eq",
    "Eq_rect_eq.eq_rect_eq",
    "eq_rect_eq",
]


def go_env():
    e = dict(os.environ)
    e.update(GOFLAGS="-mod=mod", GOPROXY="off", GOSUMDB="off", GOTOOLCHAIN="local",
             CGO_ENABLED=e.get("CGO_ENABLED", "1"))
    return e


class Lock:
    """file lock; the "coq" lock guards /verif/coq (shared by runs against /repo and against a scratch copy),
    every other lock is private to the work root"""
    def __init__(self, name):
        os.makedirs(WORK, exist_ok=True)
        root = os.path.join(VERIF, "work") if name == "coq" else WORK
        os.makedirs(root, exist_ok=True)
        self.path = os.path.join(root, "." + name + ".lock")

    _held = {}   # path -> nesting depth (re-entrant within one process)

    def __enter__(self):
        if Lock._held.get(self.path, 0) > 0:
            Lock._held[self.path] += 1
            self.f = None
            return self
        self.f = open(self.path, "w")
        fcntl.flock(self.f, fcntl.LOCK_EX)
        Lock._held[self.path] = 1
        return self

    def __exit__(self, *a):
        Lock._held[self.path] -= 1
        if self.f is not None:
            fcntl.flock(self.f, fcntl.LOCK_UN)
            self.f.close()


def run(cmd, cwd=None, timeout=None, env=None, input=None):
    """run a command, return (rc, stdout+stderr)"""
    try:
        p = subprocess.run(cmd, cwd=cwd, env=env, input=input, stdout=subprocess.PIPE,
                           stderr=subprocess.STDOUT, timeout=timeout, text=True,
                           shell=isinstance(cmd, str))
        return p.returncode, p.stdout
    except subprocess.TimeoutExpired as e:
        out = e.stdout or ""
        if isinstance(out, bytes):
            out = out.decode("utf-8", "replace")
        return 124, out + "\n[timeout after %ss]" % timeout


# ---------------------------------------------------------------- gates
def strip_coq_comments(src):
    out = []
    depth = 0
    i = 0
    n = len(src)
    in_str = False
    while i < n:
        c = src[i]
        if depth == 0 and c == '"':
            in_str = not in_str
            out.append(c)
            i += 1
            continue
        if not in_str and src.startswith("(*", i):
            depth += 1
            i += 2
            continue
        if not in_str and depth > 0 and src.startswith("*)", i):
            depth -= 1
            i += 2
            continue
        if depth == 0:
            out.append(c)
        elif c == "\n":
            out.append(c)
        i += 1
    return "".join(out)


FORBIDDEN = re.compile(
    r"\b(Admitted|admit|Axiom|Axioms|Parameter|Parameters|Conjecture|Conjectures|"
    r"Admit\s+Obligations|bypass_check|Unset\s+Guard\s+Checking|Unset\s+Positivity\s+Checking|"
    r"Unset\s+Universe\s+Checking|type-in-type|impredicative-set|give_up)\b")
SECTION_ONLY = re.compile(r"^\s*(Variable|Variables|Hypothesis|Hypotheses|Context)\b")


def gates(only=None):
    """returns list of problems (empty = pass); only = list of files relative to coq/ (default: all)"""
    problems = []
    if only is None:
        files = sorted(glob.glob(os.path.join(COQ, "**", "*.v"), recursive=True))
    else:
        files = [os.path.join(COQ, f) for f in only]
    for f in files:
        src = strip_coq_comments(open(f, encoding="utf-8", errors="replace").read())
        depth = 0
        for ln, line in enumerate(src.split("\n"), 1):
            m = FORBIDDEN.search(line)
            if m:
                problems.append("%s:%d: forbidden '%s'" % (os.path.relpath(f, VERIF), ln, m.group(1)))
            if re.match(r"^\s*Section\b", line):
                depth += 1
            elif re.match(r"^\s*End\b", line) and depth > 0:
                depth -= 1
            elif SECTION_ONLY.match(line) and depth == 0:
                problems.append("%s:%d: '%s' outside a Section" % (os.path.relpath(f, VERIF), ln, line.strip()))
    proj = open(os.path.join(COQ, "_CoqProject")).read()
    for bad in ("-type-in-type", "-impredicative-set", "-vos", "-vok"):
        if bad in proj:
            problems.append("_CoqProject contains " + bad)
    return problems


# ---------------------------------------------------------------- coq build
COQ_DIRS = ["Lib", "Generated", "Model", "Proofs", "Tie", "Props"]
COQ_HEADER = ("-Q . GoHls\n-arg -w -arg -notation-overridden,-deprecated-hint-without-locality,"
              "-deprecated-instance-without-locality,-abstract-large-number\n")


def gen_coqproject():
    """_CoqProject lists every .v under the source directories (sorted); rewritten only when it changes"""
    files = []
    for d in COQ_DIRS:
        files += sorted(os.path.relpath(p, COQ) for p in glob.glob(os.path.join(COQ, d, "**", "*.v"), recursive=True))
    txt = COQ_HEADER + "\n".join(files) + "\n"
    proj = os.path.join(COQ, "_CoqProject")
    old = open(proj).read() if os.path.exists(proj) else ""
    if old != txt:
        open(proj, "w").write(txt)


def coq_build(targets=None, timeout=3000, clean=False, keep_going=False):
    """.vo build through coq_makefile + make (never -vos); targets = list like ['Props/C17.vo']
    (default: everything). Returns (ok, log)"""
    with Lock("coq"):
        gen_coqproject()
        mk = os.path.join(COQ, "Makefile")
        proj = os.path.join(COQ, "_CoqProject")
        if clean and os.path.exists(mk):
            run(["make", "-C", COQ, "clean"], timeout=300)
        if (not os.path.exists(mk)) or os.path.getmtime(mk) < os.path.getmtime(proj):
            rc, out = run(["coq_makefile", "-f", "_CoqProject", "-o", "Makefile"], cwd=COQ, timeout=120)
            if rc != 0:
                return False, out
        # generated files are rewritten by translators, possibly with an older modification time than a .vo that was
        # compiled from other content (a run against a scratch copy of /repo): make goes by time, so remember by a
        # sidecar what content each generated .vo was last built from and force a rebuild when it differs
        gen_dir = os.path.join(COQ, "Generated")
        gens = sorted(glob.glob(os.path.join(gen_dir, "*.v")))
        shas = {}
        for g in gens:
            shas[g] = hashlib.sha256(open(g, "rb").read()).hexdigest()
            side = os.path.join(gen_dir, "." + os.path.basename(g) + ".built")
            built = open(side).read().strip() if os.path.exists(side) else ""
            if built != shas[g]:
                os.utime(g, None)
        rc, out = run(["make", "-C", COQ, "-j16"] + (["-k"] if keep_going else []) + (targets or []), timeout=timeout)
        for g in gens:
            if os.path.exists(g[:-2] + ".vo") and os.path.getmtime(g[:-2] + ".vo") >= os.path.getmtime(g):
                open(os.path.join(gen_dir, "." + os.path.basename(g) + ".built"), "w").write(shas[g])
        return rc == 0, out


def coq_closure(prop_file):
    """local .v files Props/Cxx.v depends on (transitively), via coqdep"""
    rc, out = run(["coqdep", "-Q", ".", "GoHls"] + sorted(
        os.path.relpath(p, COQ) for p in glob.glob(os.path.join(COQ, "**", "*.v"), recursive=True)),
        cwd=COQ, timeout=120)
    deps = {}
    for line in out.split("\n"):
        if ":" not in line:
            continue
        lhs, rhs = line.split(":", 1)
        targets = [t for t in lhs.split() if t.endswith(".vo")]
        reqs = [t[:-1] if t.endswith(".vo") and False else t for t in rhs.split()]
        for t in targets:
            deps[t[:-1]] = [r[:-1] for r in reqs if r.endswith(".vo")]  # X.vo -> X.v
    seen = []
    todo = [prop_file]
    while todo:
        f = todo.pop()
        if f in seen:
            continue
        seen.append(f)
        todo.extend(deps.get(f, []))
    return sorted(seen)


def count_obligations(files):
    n = 0
    names = []
    for f in files:
        src = strip_coq_comments(open(os.path.join(COQ, f), encoding="utf-8", errors="replace").read())
        n += len(re.findall(r"\b(Qed|Defined)\s*\.", src))
    return n


def capture_assumptions(pid, timeout=600):
    """compile Props/<pid>.v, return (ok, text, theorems[{name, assumptions}])"""
    f = "Props/%s.v" % pid
    with Lock("coq"):
        rc, out = run(["coqc", "-Q", ".", "GoHls",
                       "-w", "-notation-overridden,-deprecated-hint-without-locality,-deprecated-instance-without-locality",
                       f], cwd=COQ, timeout=timeout)
    os.makedirs(os.path.join(COQ, "out"), exist_ok=True)
    open(os.path.join(COQ, "out", pid + ".assumptions"), "w").write(out)
    if rc != 0:
        return False, out, []
    src = strip_coq_comments(open(os.path.join(COQ, f)).read())
    names = re.findall(r"Print\s+Assumptions\s+([A-Za-z0-9_']+)\s*\.", src)
    thms = re.findall(r"\b(?:Theorem|Lemma|Corollary)\s+([A-Za-z0-9_']+)", src)
    blocks = re.split(r"(?=Closed under the global context|Axioms:)", out)
    blocks = [b for b in blocks if b.startswith("Closed under") or b.startswith("Axioms:")]
    res = []
    ok = True
    if len(blocks) != len(names) or set(names) != set(thms):
        ok = False
        out += "\n[driver] every theorem of %s needs a Print Assumptions (theorems=%s printed=%s blocks=%d)" % (
            f, thms, names, len(blocks))
    for name, b in zip(names, blocks):
        if b.startswith("Closed under"):
            res.append({"name": name, "assumptions": "Closed under the global context"})
        else:
            axs = re.findall(r"^([A-Za-z0-9_.']+)\s*:", b, re.M)
            bad = [a for a in axs if a not in ALLOWED_AXIOMS and a.split(".")[-1] not in ALLOWED_AXIOMS]
            res.append({"name": name, "assumptions": "Axioms: " + ", ".join(axs)})
            if bad:
                ok = False
                out += "\n[driver] theorem %s depends on non-allow-listed axioms %s" % (name, bad)
    return ok, out, res


def coqchk_props(pid, timeout=5400):
    """thorough tier: independent re-check of Props/<pid>.vo and everything it depends on with coqchk;
    returns (ok, summary-lines)"""
    with Lock("coq"):
        rc, out = run(["coqchk", "-silent", "-o", "-Q", ".", "GoHls", "GoHls.Props.%s" % pid], cwd=COQ, timeout=timeout)
    os.makedirs(os.path.join(COQ, "out"), exist_ok=True)
    open(os.path.join(COQ, "out", pid + ".coqchk"), "w").write(out)
    i = out.find("CONTEXT SUMMARY")
    summ = out[i:] if i >= 0 else out[-1500:]
    items = {}
    for mm in re.finditer(r"\* ([^:\n]+):\s*(.*?)(?=\n\s*\n|\Z)", summ, re.S):
        items[mm.group(1).strip()] = " ".join(mm.group(2).split())
    ok = (rc == 0 and i >= 0)
    axs = items.get("Axioms", "?")
    if axs != "<none>":
        names = re.findall(r"([A-Za-z0-9_.']+)", axs)
        bad = [a for a in names if a not in ALLOWED_AXIOMS and a.split(".")[-1] not in ALLOWED_AXIOMS]
        if bad or axs == "?":
            ok = False
    for k in ("Constants/Inductives relying on type-in-type", "Constants/Inductives relying on unsafe (co)fixpoints",
              "Inductives whose positivity is assumed"):
        if items.get(k, "?") != "<none>":
            ok = False
    lines = ["coqchk -silent -o GoHls.Props.%s: exit %d" % (pid, rc)] + ["%s: %s" % kv for kv in items.items()]
    return ok, lines, (out[-2000:] if not ok else "")


# ---------------------------------------------------------------- harness
def build_harness(name, tags="verif", race=False, timeout=900):
    """go build ./cmd/<name> against /repo's working tree; returns (ok, log, binpath)"""
    os.makedirs(os.path.join(WORK, "bin"), exist_ok=True)
    binp = os.path.join(WORK, "bin", name + ("_race" if race else ""))
    with Lock("go"):
        hdir = HARNESS
        if _ALT:
            # scratch copy of the harness module whose replace directive points at the scratch repo
            hdir = os.path.join(WORK, "harness")
            run(["rm", "-rf", hdir])
            shutil.copytree(HARNESS, hdir)
            gm = open(os.path.join(hdir, "go.mod")).read().replace("=> /repo", "=> " + REPO)
            open(os.path.join(hdir, "go.mod"), "w").write(gm)
        shutil.copyfile(os.path.join(REPO, "go.sum"), os.path.join(hdir, "go.sum"))
        cmd = ["go", "build", "-tags", tags]
        if race:
            cmd.append("-race")
        cmd += ["-o", binp, "./cmd/" + name]
        rc, out = run(cmd, cwd=hdir, env=go_env(), timeout=timeout)
    return rc == 0, out, binp


def eval_shard(path, timeout=1500):
    d = os.path.dirname(path)
    # large case files (long list literals) overflow coqc's default 8 MB stack while being parsed
    rc, out = run(["bash", "-c", 'ulimit -s unlimited 2>/dev/null || ulimit -s 1000000 2>/dev/null; exec coqc -Q "$0" GoHls -w -all "$1"',
                   COQ, os.path.basename(path)], cwd=d, timeout=timeout)
    for ext in (".vo", ".vok", ".vos", ".glob"):
        try:
            os.remove(path[:-2] + ext)
        except OSError:
            pass
    try:
        os.remove(os.path.join(d, "." + os.path.basename(path)[:-2] + ".aux"))
    except OSError:
        pass
    if rc != 0:
        return {"shard": path, "ok": False, "error": out[-3000:], "bad": None}
    flat = " ".join(out.split())
    m = re.search(r"\bM\s*=\s*(.*?)\s*:\s*list\b", flat)
    if not m:
        return {"shard": path, "ok": False, "error": "cannot parse: " + flat[-2000:], "bad": None}
    body = m.group(1).strip()
    if body == "[]":
        return {"shard": path, "ok": True, "bad": []}
    idx = [int(x) for x in re.findall(r"\(\s*(\d+)(?:%nat)?\s*,", body)]
    if not idx:
        return {"shard": path, "ok": False, "error": "non-empty mismatch list not parsed: " + body[:2000], "bad": None}
    return {"shard": path, "ok": True, "bad": idx, "raw": body[:4000]}


def eval_shards(directory, pattern="cases_*.v", jobs=8, timeout=1500):
    """vm_compute every shard (make sure the Coq build is current first). Returns list of results."""
    shards = sorted(glob.glob(os.path.join(directory, pattern)),
                    key=lambda p: int(re.findall(r"(\d+)\.v$", p)[0]))
    with concurrent.futures.ThreadPoolExecutor(max_workers=jobs) as ex:
        return list(ex.map(lambda p: eval_shard(p, timeout), shards))


# ---------------------------------------------------------------- known findings
def load_known():
    p = os.path.join(VERIF, "known_findings.json")
    if not os.path.exists(p):
        return []
    return json.load(open(p)).get("findings", [])


def match_known(pid, signature, known):
    for k in known:
        if k.get("property") != pid or k.get("kind") != "finding":
            continue
        if fnmatch.fnmatchcase(signature, k.get("signature", "")):
            return k
    return None


# ---------------------------------------------------------------- result object of a tie
class Tie:
    def __init__(self):
        self.evaluations = 0
        self.distinct_nontrivial = 0
        self.rule = ""
        self.samples = []
        self.traces = 0
        self.distribution = {}
        self.oracle_failures = []   # {signature, what, input}
        self.mismatches = []        # {observable, input, detail}
        self.errors = []            # infrastructure problems (treated as failure of the tie)
        self.assumptions = []
        self.extra = {}
        self.min_nontrivial = 2


def load_tie_module(pid):
    p = os.path.join(VERIF, "ties", pid + ".py")
    spec = importlib.util.spec_from_file_location("tie_" + pid, p)
    m = importlib.util.module_from_spec(spec)
    spec.loader.exec_module(m)
    return m


def write_replay(pid, kind, payload):
    d = os.path.join(WORK if _ALT else VERIF, "replays", pid)
    os.makedirs(d, exist_ok=True)
    blob = json.dumps(payload, sort_keys=True, indent=1)
    h = hashlib.sha256(blob.encode()).hexdigest()[:12]
    path = os.path.join(d, "%s-%s.json" % (kind, h))
    open(path, "w").write(blob + "\n")
    return os.path.relpath(path, VERIF)


def main_check(pid, tier, seed, replay=None):
    # two invocations for the same property share work/<pid>: one at a time
    with Lock("check-" + pid):
        if hasattr(load_tie_module(pid), "translate"):
            # this property's model is partly regenerated into coq/Generated: nobody else may rebuild /verif/coq
            # (e.g. a run against a scratch copy of /repo) between the translation and the last model evaluation
            with Lock("coq"):
                return _main_check(pid, tier, seed, replay)
        return _main_check(pid, tier, seed, replay)


def _main_check(pid, tier, seed, replay=None):
    t0 = time.time()
    mod = load_tie_module(pid)
    meta = mod.META
    known = load_known()
    log = []

    targets = ["Props/%s.vo" % pid] + list(meta.get("coq_targets", []))
    closure = sorted(set(sum([coq_closure(t[:-1]) for t in targets], [])))

    # G. gates (over the files this property's theorems and tie depend on; setup scans everything)
    gp = gates(closure)
    # the translators write coq/Generated, the build reads it: one run at a time from here to the end of the
    # proof leg (a run against a scratch copy of /repo shares /verif/coq with the runs against /repo)
    with Lock("coq"):
        # translators (regenerate coq/Generated from /repo) if the tie has any
        if hasattr(mod, "translate"):
            terr = mod.translate()
            if terr:
                gp.append("translator: " + terr)

        # P. proof leg
        proof_ok, build_log = coq_build(targets)
        ass_ok, ass_text, thms = (False, "", [])
        if proof_ok:
            ass_ok, ass_text, thms = capture_assumptions(pid)
        chk_lines = []
        if proof_ok and ass_ok and tier == "thorough" and not replay:
            chk_ok, chk_lines, chk_tail = coqchk_props(pid)
            if not chk_ok:
                ass_ok = False
                ass_text += "\n[driver] coqchk did not accept Props/%s.vo and its closure:\n%s" % (pid, chk_tail)
    obligations = count_obligations(closure)
    proof_failed = (not proof_ok) or (not ass_ok) or bool(gp)
    failing_theorem = None
    if proof_failed:
        txt = "\n".join(gp) + "\n" + (build_log if not proof_ok else ass_text)
        m = re.search(r'File "\./?([^"]+)", line (\d+)', txt)
        failing_theorem = {"file": m.group(1) if m else None, "line": int(m.group(2)) if m else None,
                           "log_tail": txt[-3000:]}

    # T + S legs
    ctx = {"tier": tier, "seed": seed, "replay": replay, "work": os.path.join(WORK, pid),
           "model_available": proof_ok, "widen": False}
    os.makedirs(ctx["work"], exist_ok=True)
    tie = mod.run(ctx)
    if (proof_failed or tie.mismatches) and not tie.oracle_failures and not replay:
        # search widened: more inputs, another seed, oracle only matters
        ctx2 = dict(ctx, seed=seed + 1000003, widen=True)
        tie2 = mod.run(ctx2)
        tie.oracle_failures += tie2.oracle_failures
        tie.evaluations += tie2.evaluations
        tie.extra["widened_search_evaluations"] = tie2.evaluations

    # verdict
    violations = []
    printed_known = set()
    for f in tie.oracle_failures:
        k = match_known(pid, f["signature"], known)
        if k:
            if k["signature"] not in printed_known:
                printed_known.add(k["signature"])
                print("KNOWN-FINDING: property=%s %s" % (pid, k.get("what", k["signature"])))
            continue
        violations.append(f)
    out_lines = []
    exit_code = 0
    seen_sig = set()
    for f in violations:
        if f["signature"] in seen_sig:
            continue
        seen_sig.add(f["signature"])
        if len(seen_sig) > 5:
            break
        rp = write_replay(pid, "violation", {"property": pid, "signature": f["signature"], "what": f["what"],
                                              "input": f.get("input"), "seed": seed, "tier": tier,
                                              "replay_cmd": "bin/check %s --replay <this file>" % pid})
        out_lines.append("VIOLATION property=%s replay=%s" % (pid, rp))
        exit_code = 1
    if not violations:
        if tie.errors:
            rp = write_replay(pid, "tie-error", {"property": pid, "correspondence": "tie:%s:harness" % pid,
                                                 "errors": tie.errors[:5], "seed": seed, "tier": tier})
            out_lines.append("VIOLATION property=%s replay=%s no-failing-input-found" % (pid, rp))
            exit_code = 1
        elif proof_failed:
            rp = write_replay(pid, "proof", {"property": pid, "theorem_or_file": failing_theorem,
                                             "gates": gp, "seed": seed, "tier": tier,
                                             "note": "the proof leg no longer checks; no failing input was found by the widened search"})
            out_lines.append("VIOLATION property=%s replay=%s no-failing-input-found" % (pid, rp))
            exit_code = 1
        elif tie.mismatches:
            mm = tie.mismatches[0]
            rp = write_replay(pid, "tie", {"property": pid,
                                           "correspondence": "tie:%s:%s" % (pid, mm.get("observable", "obs")),
                                           "input": mm.get("input"), "detail": mm.get("detail"),
                                           "n_mismatching_cases": len(tie.mismatches), "seed": seed, "tier": tier,
                                           "note": "model and implementation disagree on this input; the property oracle accepts the implementation's behaviour"})
            out_lines.append("VIOLATION property=%s replay=%s no-failing-input-found" % (pid, rp))
            exit_code = 1
        elif tie.distinct_nontrivial < tie.min_nontrivial and not replay:
            rp = write_replay(pid, "generator", {"property": pid, "correspondence": "tie:%s:generator" % pid,
                                                 "distinct_nontrivial": tie.distinct_nontrivial,
                                                 "floor": tie.min_nontrivial})
            out_lines.append("VIOLATION property=%s replay=%s no-failing-input-found" % (pid, rp))
            exit_code = 1

    wall = time.time() - t0
    trusted = list(meta.get("trusted_base", []))
    trusted.append("Coq 8.16.1 kernel (coqc), vm_compute; no native_compute")
    trusted.append("Print Assumptions: " + "; ".join("%s: %s" % (t["name"], t["assumptions"]) for t in thms))
    if chk_lines:
        trusted.append("independent re-check (thorough tier): " + "; ".join(chk_lines))
    ev = {
        "property_id": pid, "tier": tier, "seed": seed, "level": "proof",
        "coverage": {
            "obligations": obligations,
            "discharged": obligations if (proof_ok and ass_ok) else 0,
            "checker_cmd": "make -C /verif/coq -j16 (coq_makefile, full .vo) && coqc Props/%s.v (Print Assumptions)" % pid,
            "trusted_base": trusted,
            "theorems": thms,
            "proof_closure_files": closure,
            "evaluations": tie.evaluations,
            "distinct_nontrivial": tie.distinct_nontrivial,
            "rule": tie.rule,
            "samples": tie.samples[:3],
            "traces_validated_against_impl": tie.traces,
            "distribution": tie.distribution,
            "model_mismatches": len(tie.mismatches),
            "oracle_failures": len(tie.oracle_failures),
            "known_findings_matched": sorted(printed_known),
            "gates": gp,
        },
        "assumptions": list(meta.get("assumptions", [])) + tie.assumptions,
        "wall_s": round(wall, 2),
        "violations": len(seen_sig) if violations else (1 if exit_code else 0),
    }
    ev["coverage"].update(tie.extra)
    evdir = os.path.join(WORK if _ALT else VERIF, "evidence")
    os.makedirs(evdir, exist_ok=True)
    json.dump(ev, open(os.path.join(evdir, pid + ".json"), "w"), indent=1, sort_keys=True)
    for l in out_lines:
        print(l)
    print("%s %s: proof=%s (%d obligations) tie: %d evaluations, %d distinct non-trivial, %d model mismatches, "
          "%d oracle failures; %.1fs" % (pid, tier, "ok" if not proof_failed else "FAILED", obligations,
                                        tie.evaluations, tie.distinct_nontrivial, len(tie.mismatches),
                                        len(tie.oracle_failures), wall))
    return exit_code
